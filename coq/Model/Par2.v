(* par2/: packets, file reader/writer, Create, and the decoder (Verify, Repair),
   over the file-system model of FS.v.  MD5 is a section variable (the extracted
   model receives OCaml's Digest.string); CRC-32, the slice scan, the coder and
   the field come from the other model files.

   Every Go operation that can panic is an explicit Panic outcome here. *)
From Gopar Require Import Model.Base Model.GF16 Model.Matrix Model.RS16 Model.CRC Model.GoPath Model.FS.
Open Scope N_scope.

Definition ascii_type (s : list N) : bytes := s ++ zeros (16 - length s).
Definition PAR2_0 : list N := [80; 65; 82; 32; 50; 46; 48; 0].     (* "PAR 2.0\0" *)
Definition MAGIC : bytes := [80; 65; 82; 50; 0; 80; 75; 84].       (* "PAR2\0PKT" *)
Definition TYPE_MAIN : bytes := ascii_type (PAR2_0 ++ [77; 97; 105; 110]).
Definition TYPE_FDESC : bytes := ascii_type (PAR2_0 ++ [70; 105; 108; 101; 68; 101; 115; 99]).
Definition TYPE_IFSC : bytes := ascii_type (PAR2_0 ++ [73; 70; 83; 67]).
Definition TYPE_RECV : bytes := ascii_type (PAR2_0 ++ [82; 101; 99; 118; 83; 108; 105; 99]).
Definition TYPE_CREATOR : bytes := ascii_type (PAR2_0 ++ [67; 114; 101; 97; 116; 111; 114]).
Definition CLIENT_ID : bytes := [103; 111; 112; 97; 114].          (* "gopar" *)
Definition EXT_PAR2 : bytes := [46; 112; 97; 114; 50].             (* ".par2" *)
Definition MAXINT : N := 2 ^ 63 - 1.
Definition MAXSLICE : N := 2 ^ 40.       (* maxSliceByteCount *)

Definition pad4 (b : bytes) : bytes :=
  let r := (length b mod 4)%nat in if Nat.eqb r 0 then b else b ++ zeros (4 - r).

(* bytes up to the first NUL *)
Fixpoint null_terminate (b : bytes) : bytes :=
  match b with [] => [] | c :: r => if c =? 0 then [] else c :: null_terminate r end.
(* decodeNullPaddedASCIIString: non-ASCII bytes become U+FFFD (EF BF BD) *)
Definition decode_ascii (b : bytes) : bytes :=
  flat_map (fun c => if c <=? 127 then [c] else [239; 191; 189]) (null_terminate b).
(* encodeASCIIString over the UTF-8 bytes of a Go string: any byte > 127 belongs to a rune > 127 *)
Definition encode_ascii (s : bytes) : outcome bytes :=
  if forallb (fun c => c <=? 127) s then Ok s else Err EMalformed.

(* fileIDLess: compare from byte 15 down *)
Definition id_ltb (a b : bytes) : bool := str_ltb (rev a) (rev b).
Fixpoint ids_sorted (l : list bytes) : bool :=
  match l with
  | a :: ((b :: _) as r) => negb (id_ltb b a) && ids_sorted r
  | _ => true
  end.

(* no id is listed twice in a row (with ids_sorted: no id is listed twice at all) *)
Fixpoint ids_adj_distinct (l : list bytes) : bool :=
  match l with
  | a :: ((b :: _) as r) => negb (bytes_eqb a b) && ids_adj_distinct r
  | _ => true
  end.
(* checkFileIDSetsSorted: sorted, and every id at most once *)
Definition ids_ok (l : list bytes) : bool := ids_sorted l && ids_adj_distinct l.

Fixpoint chunks_of (n : nat) (fuel : nat) (b : bytes) : list bytes :=
  match fuel with
  | O => []
  | S f => match b with [] => [] | _ => firstn n b :: chunks_of n f (skipn n b) end
  end.
Definition chunk_bytes (n : nat) (b : bytes) : list bytes := chunks_of n (length b) b.

Section Par2.
  Variable md5 : bytes -> bytes.

  Definition hash16k (d : bytes) : bytes := md5 (firstn (N.to_nat 16384) d).

  (** * packet framing (packet.go) *)
  Definition write_packet (setid ptype body : bytes) : bytes :=
    MAGIC ++ le_encode 8 (64 + N.of_nat (length body)) ++ md5 (setid ++ ptype ++ body) ++ setid ++ ptype ++ body.

  Inductive next_packet :=
  | NPEof
  | NPErr
  | NPPacket (setid ptype body rest : bytes).

  Definition read_next_packet (buf : bytes) : next_packet :=
    match buf with
    | [] => NPEof
    | _ =>
      if Nat.ltb (length buf) 64 then NPErr
      else
        let magic := firstn 8 buf in
        let len := le_decode (firstn 8 (skipn 8 buf)) in
        let hash := firstn 16 (skipn 16 buf) in
        let setid := firstn 16 (skipn 32 buf) in
        let ptype := firstn 16 (skipn 48 buf) in
        let rest := skipn 64 buf in
        if negb (bytes_eqb magic MAGIC) then NPErr
        else if (len <? 64) || negb (len mod 4 =? 0) then NPErr
        else
          let blen := len - 64 in
          if N.of_nat (length rest) <? blen then NPErr       (* includes lengths whose int conversion would be negative *)
          else
            let body := firstn (N.to_nat blen) rest in
            if negb (bytes_eqb (md5 (setid ++ ptype ++ body)) hash) then NPErr
            else NPPacket setid ptype body (skipn (N.to_nat blen) rest)
    end.

  (** * packet bodies *)
  Record mainpkt := { mp_slice : N; mp_rec : list bytes; mp_nonrec : list bytes }.
  Record fdesc := { fd_hash : bytes; fd_hash16k : bytes; fd_len : N; fd_name : bytes }.

  Definition write_main (m : mainpkt) : outcome bytes :=
    if (mp_slice m =? 0) || negb (mp_slice m mod 4 =? 0) then Err EMalformed
    else if Nat.eqb (length (mp_rec m)) 0 then Err EMalformed
    else if negb (ids_ok (mp_rec m)) || negb (ids_ok (mp_nonrec m)) then Err EMalformed
    else Ok (le_encode 8 (mp_slice m) ++ le_encode 4 (N.of_nat (length (mp_rec m))) ++ concat (mp_rec m) ++ concat (mp_nonrec m)).

  Definition read_main (body : bytes) : outcome mainpkt :=
    if Nat.ltb (length body) 12 then Err EMalformed
    else
      let slice := le_decode (firstn 8 body) in
      let cnt := le_decode (firstn 4 (skipn 8 body)) in
      let rest := skipn 12 body in
      if (slice =? 0) || negb (slice mod 4 =? 0) || (MAXINT <? slice) || (MAXSLICE <? slice) then Err EMalformed
      else if cnt =? 0 then Err EMalformed
      else if negb (Nat.eqb (length rest mod 16) 0) then Err EMalformed
      else
        let ids := chunk_bytes 16 rest in
        if N.of_nat (length ids) <? cnt then Err EMalformed
        else
          let rs := firstn (N.to_nat cnt) ids in
          let nrs := skipn (N.to_nat cnt) ids in
          if negb (ids_ok rs) || negb (ids_ok nrs) then Err EMalformed
          else Ok {| mp_slice := slice; mp_rec := rs; mp_nonrec := nrs |}.

  Definition compute_file_id (h16k : bytes) (len : N) (name : bytes) : bytes :=
    md5 (h16k ++ le_encode 8 len ++ name).

  Definition write_fdesc (id : bytes) (p : fdesc) : outcome bytes :=
    if fd_len p =? 0 then Err EMalformed
    else
      do _ <- check_filename (fd_name p);
      do nb <- encode_ascii (fd_name p);
      if negb (bytes_eqb (compute_file_id (fd_hash16k p) (fd_len p) nb) id) then Err EMalformed
      else Ok (id ++ fd_hash p ++ fd_hash16k p ++ le_encode 8 (fd_len p) ++ nb).

  Definition read_fdesc (body : bytes) : outcome (bytes * fdesc) :=
    if Nat.ltb (length body) 56 then Err EMalformed
    else
      let id := firstn 16 body in
      let h := firstn 16 (skipn 16 body) in
      let h16 := firstn 16 (skipn 32 body) in
      let len := le_decode (firstn 8 (skipn 48 body)) in
      let nameb := skipn 56 body in
      if negb (bytes_eqb (compute_file_id h16 len (null_terminate nameb)) id) then Err EMalformed
      else if len =? 0 then Err EMalformed
      else
        let name := decode_ascii nameb in
        do _ <- check_filename name;
        if MAXINT <? len then Err EMalformed
        else Ok (id, {| fd_hash := h; fd_hash16k := h16; fd_len := len; fd_name := name |}).

  (* checksum pair = (md5 16 bytes, crc32 as a number) *)
  Definition write_ifsc (id : bytes) (pairs : list (bytes * N)) : outcome bytes :=
    match pairs with
    | [] => Err EMalformed
    | _ => Ok (id ++ flat_map (fun p : bytes * N => fst p ++ le_encode 4 (snd p)) pairs)
    end.
  Definition read_ifsc (body : bytes) : outcome (bytes * list (bytes * N)) :=
    if Nat.ltb (length body) 16 then Err EMalformed
    else
      let rest := skipn 16 body in
      if Nat.eqb (length rest) 0 || negb (Nat.eqb (length rest mod 20) 0) then Err EMalformed
      else Ok (firstn 16 body, map (fun c => (firstn 16 c, le_decode (skipn 16 c))) (chunk_bytes 20 rest)).

  Definition write_recv (exp : N) (data : bytes) : outcome bytes :=
    if Nat.eqb (length data) 0 || negb (Nat.eqb (length data mod 4) 0) then Err EMalformed
    else Ok (le_encode 4 exp ++ data).
  Definition read_recv (body : bytes) : outcome (N * bytes) :=
    if Nat.eqb (length body) 0 || negb (Nat.eqb (length body mod 4) 0) then Err EMalformed
    else let e := le_decode (firstn 4 body) in
         if 65535 <? e then Err EMalformed else Ok (e, skipn 4 body).

  (** * file.go: a PAR2 file as the maps readFile builds (association lists, last insertion wins) *)
  Record pfile := {
    pf_client : option bytes;
    pf_main : option mainpkt;
    pf_fdesc : list (bytes * fdesc);
    pf_ifsc : list (bytes * list (bytes * N));
    pf_recv : list (N * bytes)
  }.
  Definition pf_empty : pfile := {| pf_client := None; pf_main := None; pf_fdesc := []; pf_ifsc := []; pf_recv := [] |}.

  Fixpoint assoc_b {A} (l : list (bytes * A)) (k : bytes) : option A :=
    match l with [] => None | (k', v) :: r => if bytes_eqb k' k then Some v else assoc_b r k end.
  Fixpoint assoc_n {A} (l : list (N * A)) (k : N) : option A :=
    match l with [] => None | (k', v) :: r => if k' =? k then Some v else assoc_n r k end.

  Inductive rf_result :=
  | RFErr                      (* any other error *)
  | RFNoPackets                (* noPacketsFoundError *)
  | RFOk (setid : bytes) (f : pfile).

  (* bytes.Index(l, expectedMagic): the first suffix of l that starts with the magic sequence *)
  Fixpoint find_magic (l : bytes) : option bytes :=
    match l with
    | [] => None
    | _ :: r => if bytes_eqb (firstn 8 l) MAGIC then Some l else find_magic r
    end.

  (* the end of readFile's loop: what is returned once no more packets can be read *)
  Definition rf_finish (setid : option bytes) (found : bool) (f : pfile) : rf_result :=
    if negb found then RFNoPackets
    else match pf_client f, setid with
         | Some _, Some sid => RFOk sid f
         | _, _ => RFErr
         end.

  (* readFile; expected = None for the index file.  A damaged packet (bad magic or length, truncated body,
     hash mismatch) is skipped: reading resumes at the next magic sequence after the start of that packet,
     and ends when there is none *)
  Fixpoint read_file_go (fuel : nat) (buf : bytes) (setid : option bytes) (found : bool) (f : pfile) : rf_result :=
    match fuel with
    | O => RFErr
    | S fuel' =>
      match read_next_packet buf with
      | NPErr =>
          match find_magic (tl buf) with
          | Some rest => read_file_go fuel' rest setid found f
          | None => rf_finish setid found f
          end
      | NPEof => rf_finish setid found f
      | NPPacket psid ptype body rest =>
          let skip := match setid with Some sid => negb (bytes_eqb psid sid) | None => false end in
          if skip then read_file_go fuel' rest setid found f
          else
            let setid' := match setid with Some sid => Some sid | None => Some psid end in
            if bytes_eqb ptype TYPE_CREATOR then
              read_file_go fuel' rest setid' true
                {| pf_client := Some (decode_ascii body); pf_main := pf_main f; pf_fdesc := pf_fdesc f; pf_ifsc := pf_ifsc f; pf_recv := pf_recv f |}
            else if bytes_eqb ptype TYPE_MAIN then
              match read_main body with
              | Ok m => read_file_go fuel' rest setid' true
                          {| pf_client := pf_client f; pf_main := Some m; pf_fdesc := pf_fdesc f; pf_ifsc := pf_ifsc f; pf_recv := pf_recv f |}
              | _ => RFErr
              end
            else if bytes_eqb ptype TYPE_FDESC then
              match read_fdesc body with
              | Ok (id, d) => read_file_go fuel' rest setid' true
                          {| pf_client := pf_client f; pf_main := pf_main f; pf_fdesc := (id, d) :: pf_fdesc f; pf_ifsc := pf_ifsc f; pf_recv := pf_recv f |}
              | _ => RFErr
              end
            else if bytes_eqb ptype TYPE_IFSC then
              match read_ifsc body with
              | Ok (id, ps) => read_file_go fuel' rest setid' true
                          {| pf_client := pf_client f; pf_main := pf_main f; pf_fdesc := pf_fdesc f; pf_ifsc := (id, ps) :: pf_ifsc f; pf_recv := pf_recv f |}
              | _ => RFErr
              end
            else if bytes_eqb ptype TYPE_RECV then
              match read_recv body with
              | Ok (e, d) =>
                  match assoc_n (pf_recv f) e with
                  | Some d' => if bytes_eqb d' d then read_file_go fuel' rest setid' true f else RFErr
                  | None => read_file_go fuel' rest setid' true
                          {| pf_client := pf_client f; pf_main := pf_main f; pf_fdesc := pf_fdesc f; pf_ifsc := pf_ifsc f; pf_recv := (e, d) :: pf_recv f |}
                  end
              | _ => RFErr
              end
            else read_file_go fuel' rest setid' true f       (* unknown packet type: kept, not interpreted *)
      end
    end.
  Definition read_file (expected : option bytes) (b : bytes) : rf_result :=
    read_file_go (S (length b)) b expected false pf_empty.

  (* readFile on a recovery file (LoadParityData): only the recovery packets of the result are used, and the
     creator packet is not required there - reading starts as if one had been seen *)
  Definition pf_vol0 : pfile := {| pf_client := Some []; pf_main := None; pf_fdesc := []; pf_ifsc := []; pf_recv := [] |}.
  Definition read_file_vol (sid : bytes) (b : bytes) : rf_result :=
    read_file_go (S (length b)) b (Some sid) false pf_vol0.

  (* sort.Ints on the exponents *)
  Fixpoint insert_exp (x : N * bytes) (l : list (N * bytes)) : list (N * bytes) :=
    match l with [] => [x] | y :: r => if fst y <? fst x then y :: insert_exp x r else x :: l end.
  Definition sort_exps (l : list (N * bytes)) : list (N * bytes) := fold_right insert_exp [] l.

  Fixpoint omap {A B} (f : A -> outcome B) (l : list A) : outcome (list B) :=
    match l with
    | [] => Ok []
    | x :: r => do y <- f x; do ys <- omap f r; Ok (y :: ys)
    end.

  (* writeFile *)
  Definition write_file (client : bytes) (m : mainpkt) (fds : list (bytes * fdesc)) (ifs : list (bytes * list (bytes * N)))
             (recv : list (N * bytes)) : outcome (bytes * bytes) :=
    if Nat.eqb (length client) 0 then Err EMalformed
    else
      do mb <- write_main m;
      let pmb := pad4 mb in
      let setid := md5 pmb in
      do cb <- encode_ascii client;
      do filepkts <- omap (fun id =>
                       match assoc_b fds id, assoc_b ifs id with
                       | Some d, Some ps =>
                           do db <- write_fdesc id d;
                           do ib <- write_ifsc id ps;
                           Ok (write_packet setid TYPE_FDESC (pad4 db) ++ write_packet setid TYPE_IFSC (pad4 ib))
                       | _, _ => Err EMalformed
                       end) (mp_rec m ++ mp_nonrec m);
      do recvpkts <- omap (fun ed : N * bytes => do rb <- write_recv (fst ed) (snd ed); Ok (write_packet setid TYPE_RECV (pad4 rb)))
                          (sort_exps recv);
      Ok (setid, write_packet setid TYPE_CREATOR (pad4 cb) ++ write_packet setid TYPE_MAIN pmb
                 ++ concat filepkts ++ concat recvpkts).

  (** * Create (create.go, encoder.go, data_file.go) *)

  (* filepath.Rel for absolute clean base and target *)
  Fixpoint strip_common (a b : list (list N)) : list (list N) * list (list N) :=
    match a, b with
    | x :: a', y :: b' => if str_eqb x y then strip_common a' b' else (a, b)
    | _, _ => (a, b)
    end.
  Definition comps_abs (p : list N) : list (list N) := filter (fun c => negb (str_eqb c [])) (split_slash p).
  Definition rel_path (basep targ : list N) : list N :=
    let '(rb, rt) := strip_common (comps_abs basep) (comps_abs targ) in
    match map (fun _ => [DOT; DOT]) rb ++ rt with
    | [] => [DOT]
    | cs => join_slash cs
    end.

  (* filepath.Abs *)
  Definition abs_path (cwd p : list N) : list N := if is_abs p then clean p else join2 cwd p.

  Definition slices_of (S : nat) (data : bytes) : list bytes :=
    map (fun c => c ++ zeros (S - length c)) (chunk_bytes S data).

  Definition dec2 (n : N) : bytes :=        (* fmt %02d *)
    let digits := fix go (fuel : nat) (n : N) (acc : bytes) : bytes :=
      match fuel with O => acc | S f => if n <? 10 then (48 + n) :: acc else go f (n / 10) ((48 + n mod 10) :: acc) end in
    let d := digits 20%nat n [] in
    if Nat.ltb (length d) 2 then 48 :: d else d.

  Definition strip_ext (p : list N) : list N := firstn (length p - length (ext p)) p.

  (* the doubling volume layout of Encoder.Write: (first exponent, count) *)
  Fixpoint volume_layout (fuel : nat) (i count total : nat) : list (nat * nat) :=
    match fuel with
    | O => []
    | S f => if Nat.leb total i then []
             else let c := if Nat.ltb total (i + count) then (total - i)%nat else count in
                  (i, c) :: volume_layout f (i + c) (c * 2) total
    end.

  Record cparams := { cp_slice : Z; cp_parity : Z }.

  Fixpoint io_reads (paths : list (list N)) (st : io) : outcome (list bytes) * io :=
    match paths with
    | [] => (Ok [], st)
    | p :: r => match io_read p st with
                | (Ok d, st') => match io_reads r st' with
                                 | (Ok ds, st'') => (Ok (d :: ds), st'')
                                 | (Err e, st'') => (Err e, st'')
                                 | (Panic q, st'') => (Panic q, st'')
                                 end
                | (Err e, st') => (Err e, st')
                | (Panic q, st') => (Panic q, st')
                end
    end.

  Fixpoint io_writes (ws : list (list N * bytes)) (st : io) : outcome unit * io :=
    match ws with
    | [] => (Ok tt, st)
    | (p, d) :: r => match io_write p d st with
                     | (Ok _, st') => io_writes r st'
                     | (Err e, st') => (Err e, st')
                     | (Panic q, st') => (Panic q, st')
                     end
    end.

  Fixpoint insert_id (x : bytes) (l : list bytes) : list bytes :=
    match l with [] => [x] | y :: r => if id_ltb x y then x :: l else y :: insert_id x r end.
  Definition sort_ids (l : list bytes) : list bytes := fold_right insert_id [] l.

  Record finfo := { fi_id : bytes; fi_desc : fdesc; fi_pairs : list (bytes * N); fi_slices : list bytes }.
  Definition data_file_info (S : nat) (relname data : bytes) : finfo :=
    let h16 := hash16k data in
    let sl := slices_of S data in
    {| fi_id := compute_file_id h16 (N.of_nat (length data)) relname;
       fi_desc := {| fd_hash := md5 data; fd_hash16k := h16; fd_len := N.of_nat (length data); fd_name := relname |};
       fi_pairs := map (fun s => (md5 s, crc32 s)) sl;
       fi_slices := sl |}.

  Fixpoint find_info (infos : list finfo) (id : bytes) : option finfo :=
    match infos with [] => None | i :: r => if bytes_eqb (fi_id i) id then Some i else find_info r id end.

  (* the pure part of Create after the files are read: the files to write, in order *)
  Definition create_outputs (parPath : list N) (sz : nat) (nparity : nat) (relnames : list bytes) (datas : list bytes)
    : outcome (list (list N * bytes)) :=
    let infos := map (fun nd : bytes * bytes => data_file_info sz (fst nd) (snd nd)) (combine relnames datas) in
    (* the map keyed by file id keeps the LAST info of an id; the recovery set lists every input *)
    let rinfos := rev infos in
    let recset := sort_ids (map fi_id infos) in
    let shards := flat_map (fun id => match find_info rinfos id with Some i => fi_slices i | None => [] end) recset in
    let nshards := length shards in
    if Nat.eqb nshards 0 then Panic PExplicit
    else if (32768 <? N.of_nat nshards) then Err EOther
    else if (65535 <? N.of_nat nparity) then Err EOther
    else
      let parity := gen_parity {| c_data := nshards; c_parity := nparity; c_pm := vandermonde_pm nshards nparity |}
                               (map le_words shards) in
      let m := {| mp_slice := N.of_nat sz; mp_rec := recset; mp_nonrec := [] |} in
      let fds := map (fun i => (fi_id i, fi_desc i)) rinfos in
      let ifs := map (fun i => (fi_id i, fi_pairs i)) rinfos in
      do ix <- write_file CLIENT_ID m fds ifs [];
      let basep := strip_ext parPath in
      do vols <- omap (fun ic : nat * nat =>
                   let '(i, c) := ic in
                   let recv := map (fun e => (N.of_nat e, le_bytes (nth e parity []))) (seq i c) in
                   do vb <- write_file CLIENT_ID m fds ifs recv;
                   Ok (basep ++ [46; 118; 111; 108] ++ dec2 (N.of_nat i) ++ [43] ++ dec2 (N.of_nat c) ++ EXT_PAR2, snd vb))
                 (volume_layout (S nparity) 0 1 nparity);
      Ok ((basep ++ EXT_PAR2, snd ix) :: vols).

  (* create.go isParityFilePath, on absolute clean paths: the input is the index file itself, or a file beside it
     that LoadParityData would list as a recovery file of the set (io_list's test for the index path) *)
  Definition is_parity_path (absPar a : list N) : bool :=
    str_eqb a absPar ||
    (let e := ext absPar in
     let pre := strip_ext absPar ++ [DOT] in
     Nat.leb (length pre + length e) (length a) && starts_with a pre && ends_with a e
     && no_slash (skipn (length pre) a)).

  Definition par2_create (cwd parPath : list N) (files : list (list N)) (p : cparams) (st : io) : outcome unit * io :=
    if negb (str_eqb (ext parPath) EXT_PAR2) then (Err EUsage, st)
    else match files with
    | [] => (Err EUsage, st)
    | _ =>
      let sz := if (cp_slice p <=? 0)%Z then 2000%nat else Z.to_nat (cp_slice p) in
      let np := if (cp_parity p <=? 0)%Z then 3%nat else Z.to_nat (cp_parity p) in
      let basedir := dir (abs_path cwd parPath) in
      let absfiles := map (abs_path cwd) files in
      (* an input that Create would overwrite, or that would later be read as a recovery file of this set *)
      if existsb (is_parity_path (abs_path cwd parPath)) absfiles then (Err EUsage, st)
      else
      let rels := map (rel_path basedir) absfiles in
      if existsb (fun r => match r with c :: _ => c =? DOT | [] => true end) rels then (Err EUsage, st)
      else if negb (Nat.eqb (sz mod 4) 0) then (Err EUsage, st)
      else
        match io_reads (map (join2 basedir) rels) st with
        | (Ok datas, st1) =>
            match create_outputs parPath sz np rels datas with
            | Ok outs => io_writes outs st1
            | Err e => (Err e, st1)
            | Panic q => (Panic q, st1)
            end
        | (Err e, st1) => (Err e, st1)
        | (Panic q, st1) => (Panic q, st1)
        end
    end.

  (** * the decoder (decoder.go) *)
  Record dinfo := { di_id : bytes; di_name : bytes; di_len : N; di_h16 : bytes; di_hash : bytes; di_pairs : list (bytes * N) }.

  Definition make_infos (S : N) (ids : list bytes) (f : pfile) : outcome (list dinfo) :=
    omap (fun id => match assoc_b (pf_fdesc f) id, assoc_b (pf_ifsc f) id with
                    | Some d, Some ps =>
                        (* the checksum list must cover exactly the declared length *)
                        if negb (N.of_nat (length ps) =? (fd_len d + S - 1) / S) then Err EMalformed
                        else Ok {| di_id := id; di_name := fd_name d; di_len := fd_len d; di_h16 := fd_hash16k d;
                                   di_hash := fd_hash d; di_pairs := ps |}
                    | _, _ => Err EMalformed
                    end) ids.

  Record decoder := { d_index : list N; d_setid : bytes; d_slice : N; d_rec : list dinfo; d_nonrec : list dinfo }.

  Definition new_decoder (indexPath : list N) (st : io) : outcome decoder * io :=
    match io_read indexPath st with
    | (Ok b, st1) =>
        (match read_file None b with
         | RFOk sid f =>
             match pf_main f with
             | None => Err EMalformed
             | Some m =>
                 match pf_recv f with
                 | _ :: _ => Err EMalformed
                 | [] =>
                     do rs <- make_infos (mp_slice m) (mp_rec m) f;
                     do nrs <- make_infos (mp_slice m) (mp_nonrec m) f;
                     Ok {| d_index := indexPath; d_setid := sid; d_slice := mp_slice m; d_rec := rs; d_nonrec := nrs |}
                 end
             end
         | _ => Err EMalformed
         end, st1)
    | (Err e, st1) => (Err e, st1)
    | (Panic q, st1) => (Panic q, st1)
    end.

  (* index of the LAST info with a given id (fileIDIndices) *)
  Fixpoint last_index_go (infos : list dinfo) (id : bytes) (i : nat) (acc : option nat) : option nat :=
    match infos with
    | [] => acc
    | x :: r => last_index_go r id (S i) (if bytes_eqb (di_id x) id then Some i else acc)
    end.
  Definition last_index (infos : list dinfo) (id : bytes) : nat :=
    match last_index_go infos id 0 None with Some i => i | None => O end.

  (* makeChecksumShardLocationMap: location = (resolved file index, slice index) *)
  Definition make_cstable (infos : list dinfo) : cstable :=
    fold_left (fun t (ii : nat * dinfo) =>
                 fold_left (fun t (kp : nat * (bytes * N)) =>
                              cs_put t (snd (snd kp)) (fst (snd kp)) (last_index infos (di_id (snd ii)), fst kp))
                           (combine (seq 0 (length (di_pairs (snd ii)))) (di_pairs (snd ii))) t)
              (combine (seq 0 (length infos)) infos) [].

  (* shard info: data and the places it was seen at, (file index, byte offset) *)
  Record sinfo := { si_data : bytes; si_locs : list (nat * nat) }.
  Record fint := { fi_missing : bool; fi_hashbad : bool; fi_lenbad : bool; fi_shards : list (option sinfo) }.

  Definition upd_nth {A} (i : nat) (f : A -> A) (l : list A) : list A :=
    firstn i l ++ match skipn i l with x :: r => f x :: r | [] => [] end.

  (* credit one hit to every registered location *)
  Definition credit (cur : nat) (h : hit) (fis : list fint) : list fint :=
    fold_left (fun fis (loc : nat * nat) =>
                 upd_nth (fst loc)
                   (fun fi => {| fi_missing := fi_missing fi; fi_hashbad := fi_hashbad fi; fi_lenbad := fi_lenbad fi;
                                 fi_shards := upd_nth (snd loc)
                                   (fun so => match so with
                                              | None => Some {| si_data := h_data h; si_locs := [(cur, h_pos h)] |}
                                              | Some s => Some {| si_data := si_data s; si_locs := si_locs s ++ [(cur, h_pos h)] |}
                                              end) (fi_shards fi) |}) fis)
              (h_locs h) fis.

  Definition file_path (indexPath name : list N) : list N := join2 (dir indexPath) name.

  Definition set_flags (i : nat) (missing hashbad lenbad : bool) (fis : list fint) : list fint :=
    upd_nth i (fun fi => {| fi_missing := missing; fi_hashbad := hashbad; fi_lenbad := lenbad; fi_shards := fi_shards fi |}) fis.

  (* LoadFileData *)
  Fixpoint load_files (d : decoder) (w : window) (t : cstable) (todo : list (nat * dinfo)) (fis : list fint) (st : io)
    : outcome (list fint) * io :=
    match todo with
    | [] => (Ok fis, st)
    | (i, info) :: r =>
        match io_read (file_path (d_index d) (di_name info)) st with
        | (Err ENotExist, st1) => load_files d w t r (set_flags i true false false fis) st1
        | (Err e, st1) => (Err e, st1)
        | (Panic q, st1) => (Panic q, st1)
        | (Ok data, st1) =>
            let hits := fst (scan md5 (N.to_nat (d_slice d)) w t data) in
            let fis1 := fold_left (fun fis h => credit i h fis) hits fis in
            let hashbad := negb (bytes_eqb (hash16k data) (di_h16 info)) || negb (bytes_eqb (md5 data) (di_hash info)) in
            let lenbad := negb (N.of_nat (length data) =? di_len info) in
            load_files d w t r (set_flags i false hashbad lenbad fis1) st1
        end
    end.

  Fixpoint list_beq_bytes (a b : list bytes) : bool :=
    match a, b with
    | [], [] => true
    | x :: a', y :: b' => bytes_eqb x y && list_beq_bytes a' b'
    | _, _ => false
    end.

  (* LoadParityData: (exponent, block) of every volume, later files overriding earlier ones *)
  Fixpoint load_parity (d : decoder) (paths : list (list N)) (acc : list (N * bytes)) (st : io)
    : outcome (list (N * bytes)) * io :=
    match paths with
    | [] => (Ok acc, st)
    | p :: r =>
        match io_read p st with
        | (Ok b, st1) =>
            match read_file_vol (d_setid d) b with
            | RFNoPackets => load_parity d r acc st1
            | RFErr => (Err EMalformed, st1)
            | RFOk _ f =>
                let ok_main := match pf_main f with
                               | None => true
                               | Some m => (mp_slice m =? d_slice d)
                                           && list_beq_bytes (map di_id (d_rec d)) (mp_rec m)
                                           && list_beq_bytes (map di_id (d_nonrec d)) (mp_nonrec m)
                               end in
                if negb ok_main then (Err EMalformed, st1)
                else if existsb (fun ed : N * bytes => negb (N.of_nat (length (snd ed)) =? d_slice d)) (pf_recv f)
                then (Err EMalformed, st1)
                else load_parity d r (pf_recv f ++ acc) st1
            end
        | (Err e, st1) => (Err e, st1)
        | (Panic q, st1) => (Panic q, st1)
        end
    end
.

  Definition parity_array (acc : list (N * bytes)) : list (option bytes) :=
    match acc with
    | [] => []
    | _ => let mx := fold_left (fun m (ed : N * bytes) => N.max m (fst ed)) acc 0 in
           map (fun e => assoc_n acc (N.of_nat e)) (seq 0 (S (N.to_nat mx)))
    end.

  Record dstate := { ds_dec : decoder; ds_fis : list fint; ds_tbl : cstable; ds_parity : list (option bytes) }.

  (* newDecoder + LoadFileData + LoadParityData *)
  Definition load_all (indexPath : list N) (st : io) : outcome dstate * io :=
    if negb (str_eqb (ext indexPath) EXT_PAR2) then (Err EUsage, st)
    else
    match new_decoder indexPath st with
    | (Ok d, st1) =>
        match win_new (Z.of_N (d_slice d)) with
        | Ok w =>
            let t := make_cstable (d_rec d) in
            let fis0 := map (fun info => {| fi_missing := false; fi_hashbad := false; fi_lenbad := false;
                                            fi_shards := map (fun _ => None) (di_pairs info) |}) (d_rec d) in
            match load_files d w t (combine (seq 0 (length (d_rec d))) (d_rec d)) fis0 st1 with
            | (Ok fis, st2) =>
                let e := ext indexPath in
                match io_list (strip_ext indexPath ++ [DOT]) e st2 with
                | (Ok paths, st3) =>
                    match load_parity d paths [] st3 with
                    | (Ok acc, st4) => (Ok {| ds_dec := d; ds_fis := fis; ds_tbl := t; ds_parity := parity_array acc |}, st4)
                    | (Err e', st4) => (Err e', st4)
                    | (Panic q, st4) => (Panic q, st4)
                    end
                | (Err e', st3) => (Err e', st3)
                | (Panic q, st3) => (Panic q, st3)
                end
            | (Err e', st2) => (Err e', st2)
            | (Panic q, st2) => (Panic q, st2)
            end
        | Err e' => (Err e', st1)
        | Panic q => (Panic q, st1)
        end
    | (Err e', st1) => (Err e', st1)
    | (Panic q, st1) => (Panic q, st1)
    end.

  (** ** ShardCounts *)
  Record counts := { c_usable : nat; c_unusable : nat; c_pusable : nat; c_punusable : nat; c_misplaced : nat }.

  Definition count_some {A} (l : list (option A)) : nat := length (filter (fun o => match o with Some _ => true | None => false end) l).
  Definition count_nones {A} (l : list (option A)) : nat := length (filter (fun o => match o with Some _ => false | None => true end) l).

  Definition shard_ok (i S j : nat) (so : option sinfo) : bool :=
    match so with
    | Some s => negb (Nat.eqb (length (si_data s)) 0) && existsb (fun l : nat * nat => Nat.eqb (fst l) i && Nat.eqb (snd l) (j * S)) (si_locs s)
    | None => false
    end.
  Definition all_shards_ok (i S : nat) (fi : fint) : bool :=
    forallb (fun js : nat * option sinfo => shard_ok i S (fst js) (snd js)) (combine (seq 0 (length (fi_shards fi))) (fi_shards fi)).
  (* fileIntegrityInfo.ok; i = resolved index of the file's id *)
  Definition file_ok (i S : nat) (fi : fint) : bool :=
    negb (fi_missing fi) && negb (fi_hashbad fi) && negb (fi_lenbad fi) && all_shards_ok i S fi.

  Definition resolved (ds : dstate) (i : nat) : nat :=
    last_index (d_rec (ds_dec ds)) (di_id (nth i (d_rec (ds_dec ds)) {| di_id := []; di_name := []; di_len := 0; di_h16 := []; di_hash := []; di_pairs := [] |})).

  Definition files_ok (ds : dstate) : list bool :=
    map (fun ifi : nat * fint => file_ok (resolved ds (fst ifi)) (N.to_nat (d_slice (ds_dec ds))) (snd ifi))
        (combine (seq 0 (length (ds_fis ds))) (ds_fis ds)).

  Definition shard_counts (ds : dstate) : counts :=
    let all := flat_map fi_shards (ds_fis ds) in
    {| c_usable := count_some all; c_unusable := count_nones all;
       c_pusable := count_some (ds_parity ds); c_punusable := count_nones (ds_parity ds);
       c_misplaced := length (filter (fun okfi : bool * fint => negb (fst okfi) && Nat.eqb (count_nones (fi_shards (snd okfi))) 0)
                                     (combine (files_ok ds) (ds_fis ds))) |}.
  Definition repair_needed (c : counts) : bool := negb (Nat.eqb (c_unusable c) 0) || negb (Nat.eqb (c_misplaced c) 0).
  Definition repair_possible (c : counts) : bool := Nat.leb (c_unusable c) (c_pusable c).

  Definition par2_verify (indexPath : list N) (st : io) : outcome counts * io :=
    match load_all indexPath st with
    | (Ok ds, st1) => (Ok (shard_counts ds), st1)
    | (Err e, st1) => (Err e, st1)
    | (Panic q, st1) => (Panic q, st1)
    end.

  (** ** Repair *)
  (* the write-out phase: every file that was not OK is reassembled, checked against both hashes, written *)
  Fixpoint write_repaired (indexPath : list N) (todo : list (bool * (dinfo * list bytes))) (done : list (list N)) (st : io)
    : (outcome unit * list (list N)) * io :=
    match todo with
    | [] => ((Ok tt, done), st)
    | (true, _) :: r => write_repaired indexPath r done st
    | (false, (info, shards)) :: r =>
        let all := concat shards in
        if N.of_nat (length all) <? di_len info then ((Panic PSlice, done), st)
        else
          let data := firstn (N.to_nat (di_len info)) all in
          if negb (bytes_eqb (hash16k data) (di_h16 info)) then ((Err EHashMismatch, done), st)
          else if negb (bytes_eqb (md5 data) (di_hash info)) then ((Err EHashMismatch, done), st)
          else
            let p := file_path indexPath (di_name info) in
            match io_write p data st with
            | (Ok _, st1) => write_repaired indexPath r (done ++ [p]) st1
            | (Err e, st1) => ((Err e, done), st1)
            | (Panic q, st1) => ((Panic q, done), st1)
            end
    end.

  Fixpoint split_by {A} (lens : list nat) (l : list A) : list (list A) :=
    match lens with [] => [] | n :: r => firstn n l :: split_by r (skipn n l) end.

  (* reconstruct the missing slices (bytes) from the found ones and the parity table *)
  Definition repair_shards (shards : list (option bytes)) (parity : list (option bytes)) (dbl : bool) : outcome (list bytes) :=
    let missing := count_nones shards in
    match parity with
    | [] => if Nat.eqb missing 0 then Ok (somes shards) else Err ENotEnoughParity
    | _ =>
      let nd := length shards in
      let np := length parity in
      if Nat.eqb nd 0 then Panic PExplicit
      else if (32768 <? N.of_nat nd) then Err EOther
      else if (65535 <? N.of_nat np) then Err EOther
      else
        let c := {| c_data := nd; c_parity := np; c_pm := vandermonde_pm nd np |} in
        let pw := map (fun o => match o with Some b => Some (le_words b) | None => None end) parity in
        do rw <- reconstruct c (map (fun o => match o with Some b => Some (le_words b) | None => None end) shards) pw;
        if dbl && negb (forallb (fun gp : list N * option (list N) =>
                                   match snd gp with Some given => bytes_eqb (fst gp) given | None => true end)
                                (combine (gen_parity c rw) pw))
        then Err EOther
        else Ok (map le_bytes rw)
    end.

  Definition repair_core (ds : dstate) (dbl : bool) : outcome (list bytes) :=
    repair_shards (map (fun so => match so with Some s => Some (si_data s) | None => None end) (flat_map fi_shards (ds_fis ds)))
                  (ds_parity ds) dbl.

  Definition par2_repair (indexPath : list N) (dbl : bool) (st : io) : (outcome unit * list (list N)) * io :=
    match load_all indexPath st with
    | (Ok ds, st1) =>
        match ds_fis ds with
        | [] => ((Err EOther, []), st1)
        | _ =>
          match repair_core ds dbl with
          | Ok data =>
              let per_file := split_by (map (fun fi => length (fi_shards fi)) (ds_fis ds)) data in
              write_repaired indexPath (combine (files_ok ds) (combine (d_rec (ds_dec ds)) per_file)) [] st1
          | Err e => ((Err e, []), st1)
          | Panic q => ((Panic q, []), st1)
          end
        end
    | (Err e, st1) => ((Err e, []), st1)
    | (Panic q, st1) => ((Panic q, []), st1)
    end.
End Par2.
