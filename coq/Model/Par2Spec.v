(* Specification-side PAR2: an independent reader written from the PAR 2.0
   specification text (not from gopar's reader), and the predicate `valid_set`
   stating every clause of property C05 about the files Create wrote.  Shares
   only primitives with the implementation model: MD5 (a parameter), CRC-32,
   little-endian decoding, and the SPECIFICATION side of the field (fmul, fpow:
   reduced carry-less arithmetic modulo 0x1100B), never the log/exp tables. *)
From Gopar Require Import Model.Base Model.GF16 Model.CRC.
Open Scope N_scope.

Section Spec.
  Variable md5 : bytes -> bytes.

  Definition s_magic : bytes := [80; 65; 82; 50; 0; 80; 75; 84].
  Definition s_type (tail : list N) : bytes :=
    let t := [80; 65; 82; 32; 50; 46; 48; 0] ++ tail in t ++ repeat 0 (16 - length t).
  Definition sT_main := s_type [77; 97; 105; 110].
  Definition sT_fdesc := s_type [70; 105; 108; 101; 68; 101; 115; 99].
  Definition sT_ifsc := s_type [73; 70; 83; 67].
  Definition sT_recv := s_type [82; 101; 99; 118; 83; 108; 105; 99].
  Definition sT_creator := s_type [67; 114; 101; 97; 116; 111; 114].

  Fixpoint beq (a b : bytes) : bool :=
    match a, b with
    | [], [] => true
    | x :: a', y :: b' => (x =? y) && beq a' b'
    | _, _ => false
    end.

  Record spacket := { sp_set : bytes; sp_type : bytes; sp_body : bytes }.

  (* a file is a back-to-back sequence of well-formed packets: magic, length >= 64 and = 0 mod 4 and
     within the file, packet MD5 over set id || type || body *)
  Fixpoint s_parse (fuel : nat) (b : bytes) : option (list spacket) :=
    match fuel with
    | O => None
    | S f =>
      match b with
      | [] => Some []
      | _ =>
        if Nat.ltb (length b) 64 then None
        else
          let len := le_decode (firstn 8 (skipn 8 b)) in
          if negb (beq (firstn 8 b) s_magic) || (len <? 64) || negb (len mod 4 =? 0) || (N.of_nat (length b) <? len) then None
          else
            let pkt := firstn (N.to_nat len) b in
            let body := skipn 64 pkt in
            let sid := firstn 16 (skipn 32 pkt) in
            let ty := firstn 16 (skipn 48 pkt) in
            if negb (beq (md5 (skipn 32 pkt)) (firstn 16 (skipn 16 pkt))) then None
            else match s_parse f (skipn (N.to_nat len) b) with
                 | Some r => Some ({| sp_set := sid; sp_type := ty; sp_body := body |} :: r)
                 | None => None
                 end
      end
    end.

  Definition of_type (t : bytes) (l : list spacket) : list spacket := filter (fun p => beq (sp_type p) t) l.

  (* 128-bit little-endian numerical order on file ids *)
  Definition id_num (id : bytes) : N := le_decode id.
  Fixpoint ascending (l : list N) : bool :=
    match l with a :: ((b :: _) as r) => (a <? b) && ascending r | _ => true end.

  Fixpoint s_chunks (n fuel : nat) (b : bytes) : list bytes :=
    match fuel with O => [] | S f => match b with [] => [] | _ => firstn n b :: s_chunks n f (skipn n b) end end.

  Definition pad_to (n : nat) (b : bytes) : bytes := b ++ repeat 0 (n - length b).
  Definition pad_mult4 (b : bytes) : bytes := b ++ repeat 0 ((4 - length b mod 4) mod 4).

  Definition s_slices (S : nat) (d : bytes) : list bytes := map (pad_to S) (s_chunks S (length d) d).

  (* the specification's constants: 2^n for n = 1, 2, 4, 7, 8, 11, ... (n not divisible by 3, 5, 17, 257) *)
  Fixpoint s_consts (fuel : nat) (n : N) (count : nat) : list N :=
    match fuel with
    | O => []
    | S f =>
      match count with
      | O => []
      | S c => if (n mod 3 =? 0) || (n mod 5 =? 0) || (n mod 17 =? 0) || (n mod 257 =? 0)
               then s_consts f (n + 1) count
               else fpow 2 n :: s_consts f (n + 1) c
      end
    end.

  Fixpoint words_le (b : bytes) : list N :=
    match b with lo :: hi :: r => (lo + 256 * hi) :: words_le r | _ => [] end.

  Fixpoint xor_words (a b : list N) : list N :=
    match a, b with x :: a', y :: b' => N.lxor x y :: xor_words a' b' | _, _ => [] end.

  (* recovery block e = sum_i slice_i * c_i^e on little-endian 16-bit words *)
  Definition s_block (consts : list N) (slices : list bytes) (nwords : nat) (e : nat) : list N :=
    fold_left (fun acc (cs : N * bytes) => xor_words acc (map (fmul (fpow (fst cs) (N.of_nat e))) (words_le (snd cs))))
              (combine consts slices) (repeat 0 nwords).

  Fixpoint beq_words (a b : list N) : bool :=
    match a, b with
    | [], [] => true
    | x :: a', y :: b' => (x =? y) && beq_words a' b'
    | _, _ => false
    end.

  Record sinput := { in_name : bytes; in_data : bytes }.

  Definition file_id_of (i : sinput) : bytes :=
    md5 (md5 (firstn (N.to_nat 16384) (in_data i)) ++ le_encode 8 (N.of_nat (length (in_data i))) ++ in_name i).

  (* insertion sort of the inputs by the numerical value of their file ids *)
  Fixpoint s_insert (x : sinput) (l : list sinput) : list sinput :=
    match l with
    | [] => [x]
    | y :: r => if id_num (file_id_of x) <? id_num (file_id_of y) then x :: l else y :: s_insert x r
    end.
  Definition s_sorted_inputs (ins : list sinput) : list sinput := fold_right s_insert [] ins.

  Definition all_ascii (b : bytes) : bool := forallb (fun c => (0 <? c) && (c <? 128)) b.

  (* everything one output file must satisfy; returns the exponents of its recovery blocks *)
  Definition valid_file (S nblocks : nat) (ins : list sinput) (setid : bytes) (mainbody : bytes)
             (consts : list N) (slices : list bytes) (is_index : bool) (content : bytes) : option (list N) :=
    match s_parse (Datatypes.S (length content)) content with
    | None => None
    | Some pkts =>
      let ok_set := forallb (fun p => beq (sp_set p) setid) pkts in
      let mains := of_type sT_main pkts in
      let ok_main := negb (Nat.eqb (length mains) 0) && forallb (fun p => beq (sp_body p) mainbody) mains in
      let ok_creator := negb (Nat.eqb (length (of_type sT_creator pkts)) 0)
                        && forallb (fun p => negb (Nat.eqb (length (sp_body p)) 0)) (of_type sT_creator pkts) in
      (* a file description and a slice-checksum packet for every input, and no others *)
      let fdescs := of_type sT_fdesc pkts in
      let ifscs := of_type sT_ifsc pkts in
      let ok_files :=
        forallb (fun i =>
          let id := file_id_of i in
          let want_fd := id ++ md5 (in_data i) ++ md5 (firstn (N.to_nat 16384) (in_data i))
                            ++ le_encode 8 (N.of_nat (length (in_data i))) ++ pad_mult4 (in_name i) in
          let want_if := id ++ flat_map (fun s => md5 s ++ le_encode 4 (crc32 s)) (s_slices S (in_data i)) in
          all_ascii (in_name i)
          && existsb (fun p => beq (sp_body p) want_fd) fdescs
          && existsb (fun p => beq (sp_body p) want_if) ifscs) ins
        && Nat.eqb (length fdescs) (length ins) && Nat.eqb (length ifscs) (length ins) in
      let recvs := of_type sT_recv pkts in
      let exps := map (fun p => le_decode (firstn 4 (sp_body p))) recvs in
      let ok_recv :=
        forallb (fun p =>
          let e := le_decode (firstn 4 (sp_body p)) in
          (e <? N.of_nat nblocks)
          && Nat.eqb (length (sp_body p)) (4 + S)
          && beq_words (words_le (skipn 4 (sp_body p))) (s_block consts slices (S / 2) (N.to_nat e))) recvs in
      let ok_index := if is_index then Nat.eqb (length recvs) 0 else true in
      let known := forallb (fun p => beq (sp_type p) sT_main || beq (sp_type p) sT_creator || beq (sp_type p) sT_fdesc
                                     || beq (sp_type p) sT_ifsc || beq (sp_type p) sT_recv) pkts in
      if ok_set && ok_main && ok_creator && ok_files && ok_recv && ok_index && known then Some exps else None
    end.

  Fixpoint insert_n (x : N) (l : list N) : list N :=
    match l with [] => [x] | y :: r => if x <? y then x :: l else y :: insert_n x r end.

  (* the whole set: outs = (is the index file?, content) *)
  Definition valid_set (S nblocks : nat) (ins : list sinput) (outs : list (bool * bytes)) : bool :=
    let sorted := s_sorted_inputs ins in
    let ids := map file_id_of sorted in
    let mainbody := le_encode 8 (N.of_nat S) ++ le_encode 4 (N.of_nat (length ins)) ++ concat ids in
    let setid := md5 mainbody in
    let slices := flat_map (fun i => s_slices S (in_data i)) sorted in
    let consts := s_consts (N.to_nat 65536) 0 (length slices) in
    let results := map (fun o : bool * bytes => valid_file S nblocks ins setid mainbody consts slices (fst o) (snd o)) outs in
    negb (Nat.eqb S 0) && Nat.eqb (S mod 4) 0
    && ascending (map id_num ids)
    && forallb (fun r => match r with Some _ => true | None => false end) results
    && Nat.eqb (length (filter fst outs)) 1
    && beq_words (fold_right insert_n [] (flat_map (fun r => match r with Some e => e | None => [] end) results))
                 (map N.of_nat (seq 0 nblocks)).
End Spec.
