(* Histories of damage, restoration, Verify and Repair over a directory (C14). *)
From Gopar Require Import Model.Base Model.CRC Model.GoPath Model.FS Model.Par2 Model.Par1.
Open Scope N_scope.

Inductive hop :=
| HSet (p : list N) (d : bytes)        (* any external modification of a file: damage, restoration, a recovery file arriving *)
| HDelete (p : list N)
| HVerify
| HRepair (dbl : bool).

Fixpoint fs_remove (fs : list (list N * bytes)) (p : list N) : list (list N * bytes) :=
  match fs with
  | [] => []
  | (q, d) :: r => if str_eqb q p then fs_remove r p else (q, d) :: fs_remove r p
  end.

Section History.
  Variable md5 : bytes -> bytes.

  (* one step on a PAR2 set with index path ix (fault-free) *)
  Definition hstep2 (ix : list N) (fs : list (list N * bytes)) (o : hop) : list (list N * bytes) :=
    match o with
    | HSet p d => fs_set fs p d
    | HDelete p => fs_remove fs p
    | HVerify => io_fs (snd (par2_verify md5 ix (io_init fs [])))
    | HRepair dbl => io_fs (snd (par2_repair md5 ix dbl (io_init fs [])))
    end.
  Definition hrun2 (ix : list N) (h : list hop) (fs : list (list N * bytes)) : list (list N * bytes) :=
    fold_left (hstep2 ix) h fs.

  Definition hstep1 (ix : list N) (fs : list (list N * bytes)) (o : hop) : list (list N * bytes) :=
    match o with
    | HSet p d => fs_set fs p d
    | HDelete p => fs_remove fs p
    | HVerify => io_fs (snd (par1_verify md5 ix true (io_init fs [])))
    | HRepair dbl => io_fs (snd (par1_repair md5 ix dbl (io_init fs [])))
    end.
  Definition hrun1 (ix : list N) (h : list hop) (fs : list (list N * bytes)) : list (list N * bytes) :=
    fold_left (hstep1 ix) h fs.
End History.
