(* gf2p16/matrix.go: matrices as lists of rows over a field whose addition is
   xor; Gauss-Jordan exactly as rowReduceForInverse does it (first non-zero
   pivot at or below the diagonal, swap, scale by the pivot's inverse,
   eliminate below; then a second pass eliminating above). *)
From Gopar Require Import Model.Base.
Open Scope N_scope.

Notation vadd := xorl (only parsing).
Notation vec := (list N) (only parsing).
Notation matrix := (list (list N)) (only parsing).

Section Matrix.
  Variable mul : N -> N -> N.
  Variable inv : N -> N.          (* only applied to non-zero elements *)


  Definition vscale (c : N) (v : vec) : vec := map (mul c) v.

  (* sum_k r[k] * X[k] : the row vector r times the matrix X (cols = width of X) *)
  Fixpoint lincomb (cols : nat) (r : vec) (X : matrix) : vec :=
    match r, X with
    | a :: r', x :: X' => vadd (vscale a x) (lincomb cols r' X')
    | _, _ => zeros cols
    end.

  Definition mmul (cols : nat) (M X : matrix) : matrix := map (fun r => lincomb cols r X) M.

  Definition ent (m : matrix) (r c : nat) : N := nth c (nth r m []) 0.

  Fixpoint upd {A} (i : nat) (x : A) (l : list A) : list A :=
    match l, i with
    | [], _ => []
    | _ :: t, O => x :: t
    | h :: t, S i' => h :: upd i' x t
    end.

  Definition identity (n : nat) : matrix :=
    map (fun i => map (fun j => if Nat.eqb i j then 1 else 0) (seq 0 n)) (seq 0 n).

  (** ** the three row operations of matrix.go *)
  Definition swap_rows (i j : nat) (m : matrix) : matrix :=
    upd i (nth j m []) (upd j (nth i m []) m).
  Definition scale_row (i : nat) (c : N) (m : matrix) : matrix :=
    upd i (vscale c (nth i m [])) m.
  Definition add_scaled_row (dest src : nat) (c : N) (m : matrix) : matrix :=
    upd dest (vadd (nth dest m []) (vscale c (nth src m []))) m.

  (** ** rowReduceForInverse *)

  (* first row index j in [i, i+fuel) with m[j][i] <> 0 *)
  Fixpoint find_pivot (m : matrix) (i j fuel : nat) : option nat :=
    match fuel with
    | O => None
    | S f => if negb (ent m j i =? 0) then Some j else find_pivot m i (S j) f
    end.

  (* "for j := lo; j < lo+cnt; j++ { t := m.At(j,i); if t != 0 { addScaledRow(j,i,t) on both } }" *)
  Fixpoint eliminate (i lo cnt : nat) (mn : matrix * matrix) : matrix * matrix :=
    match cnt with
    | O => mn
    | S c =>
        let t := ent (fst mn) lo i in
        let mn' := if negb (t =? 0)
                   then (add_scaled_row lo i t (fst mn), add_scaled_row lo i t (snd mn))
                   else mn in
        eliminate i (S lo) c mn'
    end.

  (* first pass, columns i, i+1, ..., i+fuel-1 *)
  Fixpoint echelon (rows i fuel : nat) (mn : matrix * matrix) : outcome (matrix * matrix) :=
    match fuel with
    | O => Ok mn
    | S f =>
        match find_pivot (fst mn) i i (rows - i) with
        | None => Err ESingular
        | Some j =>
            let m1 := swap_rows i j (fst mn) in
            let n1 := swap_rows i j (snd mn) in
            let pinv := inv (ent m1 i i) in
            let m2 := scale_row i pinv m1 in
            let n2 := scale_row i pinv n1 in
            echelon rows (S i) f (eliminate i (S i) (rows - S i) (m2, n2))
        end
    end.

  (* second pass *)
  Fixpoint reduce_above (i fuel : nat) (mn : matrix * matrix) : matrix * matrix :=
    match fuel with
    | O => mn
    | S f => reduce_above (S i) f (eliminate i 0 i mn)
    end.

  Definition row_reduce_pair (m n : matrix) : outcome (matrix * matrix) :=
    let rows := length m in
    do mn <- echelon rows 0 rows (m, n);
    Ok (reduce_above 0 rows mn).

  (* Matrix.RowReduceForInverse: the two dimension panics, then the reduction on clones *)
  Definition is_square (m : matrix) : bool :=
    forallb (fun r => Nat.eqb (length r) (length m)) m.
  Definition RowReduceForInverse (m n : matrix) : outcome matrix :=
    if negb (is_square m) then Panic PExplicit
    else if negb (Nat.eqb (length n) (length m)) then Panic PExplicit
    else do mn <- row_reduce_pair m n; Ok (snd mn).

  Definition Inverse (m : matrix) : outcome matrix :=
    if negb (is_square m) then Panic PExplicit
    else do mn <- row_reduce_pair m (identity (length m)); Ok (snd mn).

  (* Matrix.Times: entry (i,j) = xor_k m[i][k]*n[k][j], via At *)
  Fixpoint dot (a b : vec) : N :=
    match a, b with x :: a', y :: b' => N.lxor (mul x y) (dot a' b') | _, _ => 0 end.
  Definition column (j : nat) (X : matrix) : vec := map (fun r => nth j r 0) X.
  Definition Times (cols : nat) (M X : matrix) : matrix :=
    map (fun r => map (fun j => dot r (column j X)) (seq 0 cols)) M.
End Matrix.
