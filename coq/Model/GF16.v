(* GF(2)[x] and GF(2^16) as gopar implements them (gf2/poly64.go, gf2p16/t.go),
   beside the specification the property names: reduced carry-less products
   modulo x^16+x^12+x^3+x+1. Definitions only; proofs are in Proofs/. *)
From Coq Require Import FMapPositive.
From Gopar Require Import Model.Base.
Open Scope N_scope.

(** * Specification side *)

Definition POLY : N := 0x1100B.

(* carry-less product: xor of (a << i) over the set bits i of b *)
Fixpoint clmul_pos (a : N) (b : positive) : N :=
  match b with
  | xH => a
  | xO b' => N.double (clmul_pos a b')
  | xI b' => N.lxor a (N.double (clmul_pos a b'))
  end.
Definition clmul (a b : N) : N := match b with N0 => 0 | Npos p => clmul_pos a p end.

(* multiply by x modulo POLY, on residues < 2^16 *)
Definition xtime (x : N) : N :=
  let y := N.double x in if 65536 <=? y then N.lxor y POLY else y.

(* remainder of x modulo POLY: Horner evaluation from the most significant bit *)
Fixpoint pmod_pos (p : positive) : N :=
  match p with
  | xH => 1
  | xO p' => xtime (pmod_pos p')
  | xI p' => N.lxor (xtime (pmod_pos p')) 1
  end.
Definition pmod (x : N) : N := match x with N0 => 0 | Npos p => pmod_pos p end.

(* THE specification product of the PAR2 field *)
Definition fmul (a b : N) : N := pmod (clmul a b).
Definition fpow (a p : N) : N := N.iter p (fmul a) 1.       (* fpow a 0 = 1, also for a = 0 *)

(* Horner-form product, used where the model has to run fast; proved equal to fmul *)
Fixpoint hmul_pos (a : N) (b : positive) : N :=
  match b with
  | xH => a
  | xO b' => xtime (hmul_pos a b')
  | xI b' => N.lxor (xtime (hmul_pos a b')) a
  end.
Definition hmul (a b : N) : N := match b with N0 => 0 | Npos p => hmul_pos a p end.
Definition hpow (a p : N) : N := N.iter p (hmul a) 1.
(* square-and-multiply power for execution *)
Fixpoint qpow_pos (a : N) (p : positive) : N :=
  match p with
  | xH => a
  | xO p' => let r := qpow_pos a p' in hmul r r
  | xI p' => let r := qpow_pos a p' in hmul a (hmul r r)
  end.
Definition qpow (a p : N) : N := match p with N0 => 1 | Npos q => qpow_pos a q end.

(** * Implementation side: gf2/poly64.go *)

Definition mask64 : N := 0xFFFFFFFFFFFFFFFF.
Definition trunc64 (x : N) : N := N.land x mask64.

Fixpoint p64_times_loop (fuel : nat) (p q prod : N) : N :=
  match fuel with
  | O => prod
  | S f =>
      if (p =? 0) || (q =? 0) then prod
      else p64_times_loop f (trunc64 (N.shiftl p 1)) (N.shiftr q 1)
                          (if N.odd q then N.lxor prod p else prod)
  end.
(* 64 iterations exhaust any q < 2^64 *)
Definition Poly64_Times (p q : N) : N := p64_times_loop 64 p q 0.

(* ilog2 as written: counts shifts; for n > 0 it is floor(log2 n) *)
Fixpoint ilog2_loop (fuel : nat) (n r : N) : N :=
  match fuel with
  | O => r
  | S f => let n' := N.shiftr n 1 in if n' =? 0 then r else ilog2_loop f n' (r + 1)
  end.
Definition ilog2 (n : N) : N := ilog2_loop 64 n 0.

Fixpoint p64_div_loop (fuel : nat) (p2 log2p2 q r : N) : N * N :=
  match fuel with
  | O => (q, r)
  | S f =>
      if r =? 0 then (q, r)
      else let log2r := ilog2 r in
           if log2r <? log2p2 then (q, r)
           else let d := log2r - log2p2 in
                p64_div_loop f p2 log2p2 (N.lxor q (trunc64 (N.shiftl 1 d)))
                             (N.lxor r (trunc64 (N.shiftl p2 d)))
  end.
Definition Poly64_Div (p p2 : N) : outcome (N * N) :=
  if p2 =? 0 then Panic PExplicit
  else Ok (p64_div_loop 65 p2 (ilog2 p2) 0 p).

(** * Implementation side: gf2p16/t.go *)

Definition ORDER : N := 65536.

(* Go arrays are zero-initialised: an absent key reads as 0 *)
Definition tab := PositiveMap.t N.
Definition tget (m : tab) (i : N) : N :=
  match PositiveMap.find (N.succ_pos i) m with Some v => v | None => 0 end.
Definition tset (m : tab) (i v : N) : tab := PositiveMap.add (N.succ_pos i) v m.

Record tables := { logT : tab; expT : tab }.

Record init_state := { is_x : N; is_p : N; is_t : tables }.

(* one iteration of the loop in init(): the three "repeated" panics, the two
   table stores, and x <- (x*3) mod m through Poly64.Times / Poly64.Div *)
Definition init_step (s : outcome init_state) : outcome init_state :=
  do st <- s;
  let x := is_x st in let p := is_p st in let t := is_t st in
  if x =? 0 then Panic PIndex                       (* logTable[x-1] with x-1 wrapped *)
  else if (x =? 1) && negb (p =? 0) then Panic PExplicit
  else if negb (x =? 1) && negb (tget (logT t) (x - 1) =? 0) then Panic PExplicit
  else if negb (tget (expT t) p =? 0) then Panic PExplicit
  else
    let t' := {| logT := tset (logT t) (x - 1) p; expT := tset (expT t) p x |} in
    do qr <- Poly64_Div (Poly64_Times x 3) POLY;
    Ok {| is_x := N.land (snd qr) 0xFFFF; is_p := p + 1; is_t := t' |}.

Definition tables_init : outcome tables :=
  do st <- N.iter (ORDER - 1) init_step
             (Ok {| is_x := 1; is_p := 0;
                    is_t := {| logT := PositiveMap.empty N; expT := PositiveMap.empty N |} |});
  Ok (is_t st).

Definition the_tables : tables :=
  match tables_init with
  | Ok t => t
  | _ => {| logT := PositiveMap.empty N; expT := PositiveMap.empty N |}
  end.

Definition tlog (x : N) : N := tget (logT the_tables) (x - 1).
Definition texp (p : N) : N := tget (expT the_tables) p.

(* T.Times *)
Definition T_Times (t u : N) : N :=
  if (t =? 0) || (u =? 0) then 0
  else texp ((tlog t + tlog u) mod (ORDER - 1)).

(* T.Inverse: (-logT + 65535) % 65535 in Go int *)
Definition T_Inverse (t : N) : outcome N :=
  if t =? 0 then Panic PExplicit
  else Ok (texp (((ORDER - 1) - tlog t) mod (ORDER - 1))).

(* T.Div *)
Definition T_Div (t u : N) : outcome N :=
  if u =? 0 then Panic PExplicit
  else if t =? 0 then Ok 0
  else Ok (texp ((tlog t + (ORDER - 1) - tlog u) mod (ORDER - 1))).

(* T.Pow: the product logT*p is taken in uint64 *)
Definition T_Pow (t p : N) : N :=
  if t =? 0 then (if p =? 0 then 1 else 0)
  else texp ((trunc64 (tlog t * p)) mod (ORDER - 1)).

(** * Executable forms of the GF(2)[x] specification, for the correspondence check *)
Definition Poly64_Times_spec (p q : N) : N := trunc64 (clmul p q).
Definition Poly64_Div_check (p d q r : N) : bool :=
  (N.lxor (clmul q d) r =? p) && ((r =? 0) || (N.log2 r <? N.log2 d)).

(* T.Inverse as a total function for use as a field parameter (0 is never inverted
   by the callers; T_Inverse 0 itself is the explicit panic above) *)
Definition gf_inv (a : N) : N := match T_Inverse a with Ok i => i | _ => 0 end.
