(* rsec16/matrix.go: how applyMatrix is split over goroutines.

   calculateParallelParams, the chunk each worker gets, the list of atomic
   kernel calls ("operations") each worker performs, and a small-step
   semantics of those operations on the shared output buffers.  Positions are
   16-bit word indices; a byte range [s, e) (both even) covers word p iff
   s <= 2p < e. *)
From Gopar Require Import Model.Base Model.GF16.
Open Scope Z_scope.

(* Go's / and % on ints truncate: Z.quot / Z.rem *)
Definition par_params (total g minLen divisor : Z) : Z * Z :=
  let per0 := Z.quot (total + g - 1) g in
  let per1 := if per0 <? minLen then minLen else per0 in
  let rem := Z.rem per1 divisor in
  let per := if rem =? 0 then per1 else per1 + (divisor - rem) in
  (per, Z.quot (total + per - 1) per).

(* worker i of a parallel run: [i*per, min(i*per+per, total)) *)
Definition chunk (total per : Z) (i : nat) : Z * Z :=
  let s := Z.of_nat i * per in
  let e := s + per in
  (s, if total <? e then total else e).

(* the ranges the code hands out: one full range on the single-threaded path
   (newNumGoroutines < 2), otherwise one chunk per goroutine *)
Definition chunks (total g minLen divisor : Z) : list (Z * Z) :=
  let '(per, g') := par_params total g minLen divisor in
  if g' <? 2 then [(0, total)]
  else map (chunk total per) (seq 0 (Z.to_nat g')).

(* one kernel call: out[row][s:e] (^)= c * in[inp][s:e] *)
Record op := { o_row : nat; o_s : Z; o_e : Z; o_c : N; o_in : nat; o_acc : bool }.

Definition ment (m : list (list N)) (i j : nat) : N := nth j (nth i m []) 0%N.

(* applyMatrixSlice for one output row: Mul with column 0, then MulAndAdd for columns 1.. *)
Definition row_ops (m : list (list N)) (nin : nat) (s e : Z) (i : nat) : list op :=
  {| o_row := i; o_s := s; o_e := e; o_c := ment m i 0; o_in := 0; o_acc := false |}
  :: map (fun j => {| o_row := i; o_s := s; o_e := e; o_c := ment m i j; o_in := j; o_acc := true |})
         (seq 1 (nin - 1)).

(* applyMatrixSlice(m, in, out, outStart, outEnd, dataStart, dataEnd) *)
Definition slice_ops (m : list (list N)) (nin : nat) (rs re : nat) (s e : Z) : list op :=
  concat (map (row_ops m nin s e) (seq rs (re - rs))).

(* applyMatrixParallelData: every worker does all rows on its byte range *)
Definition workers_data (m : list (list N)) (nin rows : nat) (L g : Z) : list (list op) :=
  map (fun se : Z * Z => slice_ops m nin 0 rows (fst se) (snd se)) (chunks L g 16 16).

(* applyMatrixParallelOut: every worker does its rows on the whole byte range *)
Definition workers_out (m : list (list N)) (nin rows : nat) (L g : Z) : list (list op) :=
  map (fun se : Z * Z => slice_ops m nin (Z.to_nat (fst se)) (Z.to_nat (snd se)) 0 L)
      (chunks (Z.of_nat rows) g 1 1).

(** * semantics on the shared output, cell = (row, word index) *)
Definition ostate := nat -> nat -> N.

Definition covers (o : op) (i p : nat) : bool :=
  Nat.eqb (o_row o) i && (o_s o <=? 2 * Z.of_nat p) && (2 * Z.of_nat p <? o_e o).

Definition exec_op (ins : nat -> nat -> N) (o : op) (st : ostate) : ostate :=
  fun i p =>
    if covers o i p
    then (if o_acc o then N.lxor (st i p) (fmul (o_c o) (ins (o_in o) p)) else fmul (o_c o) (ins (o_in o) p))
    else st i p.

Definition exec (ins : nat -> nat -> N) (tr : list op) (st : ostate) : ostate :=
  fold_left (fun st o => exec_op ins o st) tr st.

(* what single-threaded applyMatrix leaves in cell (i, p) *)
Definition single_val (m : list (list N)) (ins : nat -> nat -> N) (nin : nat) (i p : nat) : N :=
  fold_left (fun acc j => N.lxor acc (fmul (ment m i j) (ins j p))) (seq 1 (nin - 1))
            (fmul (ment m i 0) (ins 0%nat p)).

(** * schedules: a trace of (worker id, op); its projection on each worker is that worker's program *)
Definition proj (k : nat) (tr : list (nat * op)) : list op :=
  map snd (filter (fun x => Nat.eqb (fst x) k) tr).

Definition is_schedule (ws : list (list op)) (tr : list (nat * op)) : Prop :=
  (forall k, proj k tr = nth k ws []) /\ Forall (fun x => (fst x < length ws)%nat) tr.
