(* The file system as gopar sees it through its fileIO interfaces: a finite map
   from path strings to contents, with a fault schedule indexed by I/O call
   number, and the trace of calls made.  A path names a directory when some file
   lies below it; reading a directory is an error that is not "does not exist". *)
From Gopar Require Import Model.Base Model.GoPath.
Open Scope N_scope.

Notation path := (list N) (only parsing).

Inductive fault := FNoEffect | FTorn (k : nat).

Inductive ioev :=
| EvRead (p : list N) (ok : bool)
| EvList (pre suf : list N) (ok : bool)
| EvWrite (p : list N) (data : bytes) (ok : bool).

Record io := { io_fs : list (list N * bytes); io_n : nat; io_sched : list (nat * fault); io_trace : list ioev }.

Definition io_init (fs : list (list N * bytes)) (sched : list (nat * fault)) : io :=
  {| io_fs := fs; io_n := O; io_sched := sched; io_trace := [] |}.

Fixpoint fs_lookup (fs : list (list N * bytes)) (p : list N) : option bytes :=
  match fs with
  | [] => None
  | (q, d) :: r => if str_eqb q p then Some d else fs_lookup r p
  end.

Fixpoint fs_set (fs : list (list N * bytes)) (p : list N) (d : bytes) : list (list N * bytes) :=
  match fs with
  | [] => [(p, d)]
  | (q, e) :: r => if str_eqb q p then (q, d) :: r else (q, e) :: fs_set r p d
  end.

Definition starts_with (s pre : list N) : bool := str_eqb (firstn (length pre) s) pre.
Definition ends_with (s suf : list N) : bool := str_eqb (skipn (length s - length suf) s) suf.

Definition is_dir (fs : list (list N * bytes)) (p : list N) : bool :=
  existsb (fun e : list N * bytes => starts_with (fst e) (p ++ [SLASH])) fs.

Fixpoint sched_lookup (s : list (nat * fault)) (n : nat) : option fault :=
  match s with [] => None | (k, f) :: r => if Nat.eqb k n then Some f else sched_lookup r n end.

Definition tick (st : io) (ev : ioev) (fs' : list (list N * bytes)) : io :=
  {| io_fs := fs'; io_n := S (io_n st); io_sched := io_sched st; io_trace := io_trace st ++ [ev] |}.

(* ReadFile: Ok bytes | Err ENotExist | Err EIO (injected fault, or the path is a directory) *)
Definition io_read (p : list N) (st : io) : outcome bytes * io :=
  match sched_lookup (io_sched st) (io_n st) with
  | Some _ => (Err EIO, tick st (EvRead p false) (io_fs st))
  | None =>
    match fs_lookup (io_fs st) p with
    | Some d => (Ok d, tick st (EvRead p true) (io_fs st))
    | None => if is_dir (io_fs st) p then (Err EIO, tick st (EvRead p false) (io_fs st))
              else (Err ENotExist, tick st (EvRead p false) (io_fs st))
    end
  end.

(* lexicographic order on byte strings, and insertion sort (directory listings are sorted) *)
Fixpoint str_ltb (a b : list N) : bool :=
  match a, b with
  | [], [] => false
  | [], _ :: _ => true
  | _ :: _, [] => false
  | x :: a', y :: b' => if x <? y then true else if y <? x then false else str_ltb a' b'
  end.
Fixpoint insert_sorted (x : list N) (l : list (list N)) : list (list N) :=
  match l with
  | [] => [x]
  | y :: r => if str_ltb y x then y :: insert_sorted x r else x :: l
  end.
Definition sort_paths (l : list (list N)) : list (list N) := fold_right insert_sorted [] l.

(* no path separator in s *)
Definition no_slash (s : list N) : bool := negb (existsb (fun c => c =? SLASH) s).

(* FindWithPrefixAndSuffix reads ONE directory - the directory part of the prefix - and keeps the entries that are
   not directories and whose names have the literal prefix and suffix, not overlapping; sorted.
   On the flat file map these are the file paths with the prefix and the suffix and NO separator after the prefix:
   a path with a separator there is a file in a sub-directory, which is not an entry of the directory read, and the
   sub-directory itself is an entry that is skipped (it is not a file of the map either) *)
Definition io_list (pre suf : list N) (st : io) : outcome (list (list N)) * io :=
  match sched_lookup (io_sched st) (io_n st) with
  | Some _ => (Err EIO, tick st (EvList pre suf false) (io_fs st))
  | None =>
    let ms := filter (fun q => Nat.leb (length pre + length suf) (length q) && starts_with q pre && ends_with q suf
                               && no_slash (skipn (length pre) q))
                     (map fst (io_fs st)) in
    (Ok (sort_paths ms), tick st (EvList pre suf true) (io_fs st))
  end.

(* WriteFile: completes, fails without effect, or fails after writing a prefix *)
Definition io_write (p : list N) (d : bytes) (st : io) : outcome unit * io :=
  match sched_lookup (io_sched st) (io_n st) with
  | Some FNoEffect => (Err EIO, tick st (EvWrite p d false) (io_fs st))
  | Some (FTorn k) => (Err EIO, tick st (EvWrite p d false) (fs_set (io_fs st) p (firstn k d)))
  | None => (Ok tt, tick st (EvWrite p d true) (fs_set (io_fs st) p d))
  end.
