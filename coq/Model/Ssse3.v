(* An executable byte-lane model of the SSSE3 multiply kernels of gf2p16
   (slice_amd64.s): the semantics of the handful of SSE2/SSSE3 instructions the
   file uses, a small machine (sixteen X registers, three general purpose
   registers, argument frame, byte buffers) and an instruction-by-instruction
   transcription of the macros and functions of slice_amd64.s.

   Conventions.
   * A 128-bit register is a [list N] of 16 bytes, index 0 = least significant
     byte = the byte MOVOU reads from / writes to the lowest address.
   * Instructions are written in the Go (Plan 9) operand order  OP src, dst ;
     the shallow functions below take their arguments in that order too, so
     [pshufb mask dst] is  PSHUFB mask, dst  and returns the new dst.
   * Register contents are assumed to be bytes (< 256); the functions compute
     on whatever they are given.
   Definitions only; proofs are in Proofs/Ssse3Facts.v. *)
From Gopar Require Import Model.Base Model.GF16 Model.Kernels.
Open Scope N_scope.

(** * Instruction semantics on 16-byte registers *)

Definition reg := list N.

(* PSHUFB mask, dst (SSSE3): byte i of the result is 0 when bit 7 of mask[i] is
   set, and dst[mask[i] & 15] otherwise. *)
Definition pshufb (mask dst : reg) : reg :=
  map (fun m => if N.testbit m 7 then 0 else nth (N.to_nat (N.land m 15)) dst 0) mask.

(* PAND src, dst / PXOR src, dst: bit-wise, so byte-wise. *)
Definition pand (src dst : reg) : reg := map2 N.land dst src.
Definition pxor (src dst : reg) : reg := map2 N.lxor dst src.

(* PSRLW $k, dst: logical right shift of each of the eight little-endian 16-bit
   lanes (bytes 2i, 2i+1); a count above 15 clears the lanes. *)
Definition lane_srl (k w : N) : N := if 15 <? k then 0 else N.shiftr w k.
Definition psrlw (k : N) (dst : reg) : reg := le_bytes (map (lane_srl k) (le_words dst)).

(* PACKUSWB src, dst: the eight SIGNED 16-bit lanes of dst, then those of src,
   each saturated to an unsigned byte: negative (bit 15 set) -> 0, > 255 -> 255. *)
Definition sat_su (w : N) : N := if 32768 <=? w then 0 else if 255 <? w then 255 else w.
Definition packuswb (src dst : reg) : reg :=
  map sat_su (le_words dst) ++ map sat_su (le_words src).

(* PUNPCKLBW src, dst = [dst0; src0; dst1; src1; ...; dst7; src7];
   PUNPCKHBW the same with bytes 8..15. *)
Fixpoint interleave (a b : list N) : list N :=
  match a, b with
  | x :: a', y :: b' => x :: y :: interleave a' b'
  | _, _ => []
  end.
Definition punpcklbw (src dst : reg) : reg := interleave (firstn 8 dst) (firstn 8 src).
Definition punpckhbw (src dst : reg) : reg := interleave (skipn 8 dst) (skipn 8 src).

(* MOVQ r64, x: the quadword in the low half, the high half cleared. *)
Definition movq_x (v : N) : reg := le_encode 8 v ++ zeros 8.

(** * The machine *)

Definition xreg := nat.
Definition X0 : xreg := 0%nat.   Definition X1 : xreg := 1%nat.
Definition X2 : xreg := 2%nat.   Definition X3 : xreg := 3%nat.
Definition X4 : xreg := 4%nat.   Definition X5 : xreg := 5%nat.
Definition X6 : xreg := 6%nat.   Definition X7 : xreg := 7%nat.
Definition X8 : xreg := 8%nat.   Definition X9 : xreg := 9%nat.
Definition X10 : xreg := 10%nat. Definition X11 : xreg := 11%nat.
Definition X12 : xreg := 12%nat. Definition X13 : xreg := 13%nat.
Definition X14 : xreg := 14%nat. Definition X15 : xreg := 15%nat.

Definition greg := nat.
Definition AX : greg := 0%nat.
Definition BX : greg := 1%nat.
Definition CX : greg := 2%nat.

(* A general purpose register (and an argument word) holds an integer or a
   pointer = buffer number + byte offset. *)
Inductive gval := GInt (n : N) | GPtr (buf : nat) (off : N).

Record state := mkState {
  sx : list reg;       (* X0 .. X15 *)
  sg : list gval;      (* AX, BX, CX *)
  sm : list bytes;     (* the buffers the pointers refer to *)
  sargs : list gval    (* the argument frame, one entry per 8 bytes of FP *)
}.

Fixpoint upd {A} (i : nat) (v : A) (l : list A) : list A :=
  match l with
  | [] => []
  | x :: r => match i with O => v :: r | S i' => x :: upd i' v r end
  end.

Definition getx (st : state) (x : xreg) : reg := nth x (sx st) [].
Definition setx (x : xreg) (v : reg) (st : state) : state :=
  mkState (upd x v (sx st)) (sg st) (sm st) (sargs st).
Definition getg (st : state) (g : greg) : gval := nth g (sg st) (GInt 0).
Definition setg (g : greg) (v : gval) (st : state) : state :=
  mkState (sx st) (upd g v (sg st)) (sm st) (sargs st).
Definition membuf (st : state) (b : nat) : bytes := nth b (sm st) [].

(* MOVOU off(g), x  and  MOVOU x, off(g) *)
Definition load16 (buf : bytes) (k : nat) : reg := firstn 16 (skipn k buf).
Definition store16 (buf : bytes) (k : nat) (v : reg) : bytes :=
  firstn k buf ++ v ++ skipn (k + 16) buf.

Definition two64 : N := 18446744073709551616.

Inductive instr :=
| MOVQ_fp (off : N) (g : greg)             (* MOVQ name+off(FP), g *)
| MOVQ_imm (v : N) (g : greg)              (* MOVQ $v, g *)
| MOVQ_gx (g : greg) (x : xreg)            (* MOVQ g, x *)
| SHRQ (k : N) (g : greg)                  (* SHRQ $k, g *)
| ADDQ (v : N) (g : greg)                  (* ADDQ $v, g *)
| SUBQ (v : N) (g : greg)                  (* SUBQ $v, g *)
| MOVOU_ld (off : N) (g : greg) (x : xreg) (* MOVOU off(g), x *)
| MOVOU_st (x : xreg) (off : N) (g : greg) (* MOVOU x, off(g) *)
| MOVO (s d : xreg)
| PXOR (s d : xreg)
| PAND (s d : xreg)
| PSHUFB (s d : xreg)
| PSRLW (k : N) (d : xreg)
| PACKUSWB (s d : xreg)
| PUNPCKLBW (s d : xreg)
| PUNPCKHBW (s d : xreg).

Definition step (i : instr) (st : state) : state :=
  match i with
  | MOVQ_fp off g => setg g (nth (N.to_nat (off / 8)) (sargs st) (GInt 0)) st
  | MOVQ_imm v g => setg g (GInt v) st
  | MOVQ_gx g x =>
      match getg st g with
      | GInt v => setx x (movq_x v) st
      | GPtr _ _ => st
      end
  | SHRQ k g =>
      match getg st g with
      | GInt v => setg g (GInt (N.shiftr v k)) st
      | GPtr _ _ => st
      end
  | ADDQ v g =>
      match getg st g with
      | GInt n => setg g (GInt ((n + v) mod two64)) st
      | GPtr b o => setg g (GPtr b (o + v)) st
      end
  | SUBQ v g =>
      match getg st g with
      | GInt n => setg g (GInt ((n + two64 - v) mod two64)) st
      | GPtr _ _ => st
      end
  | MOVOU_ld off g x =>
      match getg st g with
      | GPtr b o => setx x (load16 (membuf st b) (N.to_nat (o + off))) st
      | GInt _ => st
      end
  | MOVOU_st x off g =>
      match getg st g with
      | GPtr b o =>
          mkState (sx st) (sg st)
                  (upd b (store16 (membuf st b) (N.to_nat (o + off)) (getx st x)) (sm st))
                  (sargs st)
      | GInt _ => st
      end
  | MOVO s d => setx d (getx st s) st
  | PXOR s d => setx d (pxor (getx st s) (getx st d)) st
  | PAND s d => setx d (pand (getx st s) (getx st d)) st
  | PSHUFB s d => setx d (pshufb (getx st s) (getx st d)) st
  | PSRLW k d => setx d (psrlw k (getx st d)) st
  | PACKUSWB s d => setx d (packuswb (getx st s) (getx st d)) st
  | PUNPCKLBW s d => setx d (punpcklbw (getx st s) (getx st d)) st
  | PUNPCKHBW s d => setx d (punpckhbw (getx st s) (getx st d)) st
  end.

Definition run (p : list instr) (st : state) : state := fold_left (fun s i => step i s) p st.

(* loop: body ; JNZ loop   where the body ends in SUBQ $1, ctr.  The loop is
   left when the counter has become 0 (ZF of the SUBQ); [fuel] bounds the
   number of iterations. *)
Fixpoint run_loop (fuel : nat) (ctr : greg) (body : list instr) (st : state) : state :=
  match fuel with
  | O => st
  | S f =>
      let st' := run body st in
      match getg st' ctr with
      | GInt 0 => st'
      | _ => run_loop f ctr body st'
      end
  end.

(** * slice_amd64.s, SSSE3 part *)

(* Sets out = 00ff00ff:00ff00ff:00ff00ff:00ff00ff, clobbering tmp and tmpx. *)
Definition SET_CONV_MASK_SSSE3 (out : xreg) (tmp : greg) (tmpx : xreg) : list instr :=
  [ MOVQ_imm 0xff tmp;
    MOVQ_gx tmp out;
    PXOR tmpx tmpx;
    PSHUFB tmpx out;
    PSRLW 8 out ].

Definition STANDARD_TO_ALT_MAP_SSSE3 (in0 in1 convMask outLow tmp : xreg) : list instr :=
  [ MOVO in0 outLow;
    PSRLW 8 in0;
    PAND convMask outLow;

    MOVO in1 tmp;
    PSRLW 8 in1;
    PAND convMask tmp;

    PACKUSWB in1 in0;
    PACKUSWB tmp outLow ].

(* func standardToAltMapSSSE3Unsafe(in0, in1, outLow, outHigh *[16]byte) *)
Definition standardToAltMapSSSE3Unsafe : list instr :=
  [ MOVQ_fp 0 AX;            (* in0+0(FP) *)
    MOVOU_ld 0 AX X0;
    MOVQ_fp 8 AX;            (* in1+8(FP) *)
    MOVOU_ld 0 AX X1 ]
  ++ SET_CONV_MASK_SSSE3 X4 BX X5
  ++ STANDARD_TO_ALT_MAP_SSSE3 X0 X1 X4 X2 X3
  ++
  [ MOVQ_fp 16 AX;           (* outLow+16(FP) *)
    MOVOU_st X2 0 AX;
    MOVQ_fp 24 AX;           (* outHigh+24(FP) *)
    MOVOU_st X0 0 AX ].

Definition ALT_TO_STANDARD_MAP_SSSE3 (inLow inHigh out1 : xreg) : list instr :=
  [ MOVO inLow out1;
    PUNPCKHBW inHigh out1;
    PUNPCKLBW inHigh inLow ].

(* func altToStandardMapSSSE3Unsafe(inLow, inHigh, out0, out1 *[16]byte) *)
Definition altToStandardMapSSSE3Unsafe : list instr :=
  [ MOVQ_fp 0 AX;            (* inLow+0(FP) *)
    MOVOU_ld 0 AX X0;
    MOVQ_fp 8 AX;            (* inHigh+8(FP) *)
    MOVOU_ld 0 AX X1 ]
  ++ ALT_TO_STANDARD_MAP_SSSE3 X0 X1 X2
  ++
  [ MOVQ_fp 16 AX;           (* out0+16(FP) *)
    MOVOU_st X0 0 AX;
    MOVQ_fp 24 AX;           (* out1+24(FP) *)
    MOVOU_st X2 0 AX ].

(* Sets out = 0f0f0f0f:0f0f0f0f:0f0f0f0f:0f0f0f0f, clobbering tmp and tmpx. *)
Definition SET_MUL_MASK_SSSE3 (out : xreg) (tmp : greg) (tmpx : xreg) : list instr :=
  [ MOVQ_imm 0xf tmp;
    MOVQ_gx tmp out;
    PXOR tmpx tmpx;
    PSHUFB tmpx out ].

Definition MUL_ALT_MAP_SSSE3_BYTE (s0 s4 s8 s12 inLow inHigh mulMask out tmp0 tmp1 : xreg)
  : list instr :=
  [ MOVO inLow tmp0;
    PAND mulMask tmp0;
    MOVO s0 out;
    PSHUFB tmp0 out;

    MOVO inLow tmp0;
    PSRLW 4 tmp0;
    PAND mulMask tmp0;
    MOVO s4 tmp1;
    PSHUFB tmp0 tmp1;
    PXOR tmp1 out;

    MOVO inHigh tmp0;
    PAND mulMask tmp0;
    MOVO s8 tmp1;
    PSHUFB tmp0 tmp1;
    PXOR tmp1 out;

    MOVO inHigh tmp0;
    PSRLW 4 tmp0;
    PAND mulMask tmp0;
    MOVO s12 tmp1;
    PSHUFB tmp0 tmp1;
    PXOR tmp1 out ].

Definition MUL_ALT_MAP_SSSE3
  (s0Low s4Low s8Low s12Low s0High s4High s8High s12High
   inLow inHigh mulMask outLow outHigh tmp0 tmp1 : xreg) : list instr :=
  MUL_ALT_MAP_SSSE3_BYTE s0Low s4Low s8Low s12Low inLow inHigh mulMask outLow tmp0 tmp1
  ++ MUL_ALT_MAP_SSSE3_BYTE s0High s4High s8High s12High inLow inHigh mulMask outHigh tmp0 tmp1.

(* "Set X8 - X15 to input tables": the fields of mulTable64Entry in struct order *)
Definition LOAD_TABLES : list instr :=
  [ MOVQ_fp 0 AX;            (* cEntry+0(FP) *)
    MOVOU_ld 0 AX X8;        (* X8  = cEntry.s0Low   *)
    MOVOU_ld 16 AX X9;       (* X9  = cEntry.s4Low   *)
    MOVOU_ld 32 AX X10;      (* X10 = cEntry.s8Low   *)
    MOVOU_ld 48 AX X11;      (* X11 = cEntry.s12Low  *)
    MOVOU_ld 64 AX X12;      (* X12 = cEntry.s0High  *)
    MOVOU_ld 80 AX X13;      (* X13 = cEntry.s4High  *)
    MOVOU_ld 96 AX X14;      (* X14 = cEntry.s8High  *)
    MOVOU_ld 112 AX X15 ].   (* X15 = cEntry.s12High *)

(* func mulAltMapSSSE3Unsafe(cEntry *mulTable64Entry, inLow, inHigh, outLow, outHigh *[16]byte) *)
Definition mulAltMapSSSE3Unsafe : list instr :=
  LOAD_TABLES
  ++
  [ MOVQ_fp 8 AX;            (* inLow+8(FP) *)
    MOVOU_ld 0 AX X0;
    MOVQ_fp 16 AX;           (* inHigh+16(FP) *)
    MOVOU_ld 0 AX X1 ]
  ++ SET_MUL_MASK_SSSE3 X7 AX X2
  ++ MUL_ALT_MAP_SSSE3 X8 X9 X10 X11 X12 X13 X14 X15 X0 X1 X7 X2 X3 X4 X5
  ++
  [ MOVQ_fp 24 AX;           (* outLow+24(FP) *)
    MOVOU_st X2 0 AX;
    MOVQ_fp 32 AX;           (* outHigh+32(FP) *)
    MOVOU_st X3 0 AX ].

Definition MUL_STANDARD_MAP_SSSE3
  (s0Low s4Low s8Low s12Low s0High s4High s8High s12High
   in0 in1 convMask mulMask tmp0 tmp1 tmp2 tmp3 : xreg) : list instr :=
  STANDARD_TO_ALT_MAP_SSSE3 in0 in1 convMask tmp0 tmp1
  ++ MUL_ALT_MAP_SSSE3 s0Low s4Low s8Low s12Low s0High s4High s8High s12High
                       tmp0 in0 mulMask in1 tmp1 tmp2 tmp3
  ++ ALT_TO_STANDARD_MAP_SSSE3 in1 tmp1 in0.

(* func mulSSSE3Unsafe(cEntry *mulTable64Entry, in0, in1, out0, out1 *[16]byte) *)
Definition mulSSSE3Unsafe : list instr :=
  LOAD_TABLES
  ++
  [ MOVQ_fp 8 AX;            (* in0+8(FP) *)
    MOVOU_ld 0 AX X0;
    MOVQ_fp 16 AX;           (* in1+16(FP) *)
    MOVOU_ld 0 AX X1 ]
  ++ SET_MUL_MASK_SSSE3 X7 AX X2
  ++ SET_CONV_MASK_SSSE3 X6 AX X2
  ++ MUL_STANDARD_MAP_SSSE3 X8 X9 X10 X11 X12 X13 X14 X15 X0 X1 X6 X7 X2 X3 X4 X5
  ++
  [ MOVQ_fp 24 AX;           (* out0+24(FP) *)
    MOVOU_st X1 0 AX;
    MOVQ_fp 32 AX;           (* out1+32(FP) *)
    MOVOU_st X0 0 AX ].

(* func mulSliceSSSE3Unsafe(cEntry *mulTable64Entry, in, out []byte):
   everything before the label loop, and the loop body up to SUBQ $1, AX
   (JNZ loop is [run_loop]); there is no  CMPQ AX, $0 / JEQ done  guard *)
Definition mulSliceSSSE3Unsafe_pre : list instr :=
  LOAD_TABLES
  ++ SET_MUL_MASK_SSSE3 X7 AX X2
  ++ SET_CONV_MASK_SSSE3 X6 AX X2
  ++
  [ MOVQ_fp 16 AX;           (* in_len+16(FP) *)
    SHRQ 5 AX;
    MOVQ_fp 8 BX;            (* in+8(FP) *)
    MOVQ_fp 32 CX ].         (* out+32(FP) *)

Definition mulSliceSSSE3Unsafe_body : list instr :=
  [ MOVOU_ld 0 BX X1;        (* in1 = inChunk[0:16]  *)
    MOVOU_ld 16 BX X0 ]      (* in0 = inChunk[16:32] *)
  ++ MUL_STANDARD_MAP_SSSE3 X8 X9 X10 X11 X12 X13 X14 X15 X0 X1 X6 X7 X2 X3 X4 X5
  ++
  [ MOVOU_st X0 0 CX;        (* outChunk[0:16]  = out1 *)
    MOVOU_st X1 16 CX;       (* outChunk[16:32] = out0 *)
    ADDQ 32 BX;
    ADDQ 32 CX;
    SUBQ 1 AX ].

(* func mulAndAddSSSE3Unsafe(cEntry *mulTable64Entry, in0, in1, out0, out1 *[16]byte) *)
Definition mulAndAddSSSE3Unsafe : list instr :=
  LOAD_TABLES
  ++
  [ MOVQ_fp 8 AX;            (* in0+8(FP) *)
    MOVOU_ld 0 AX X0;
    MOVQ_fp 16 AX;           (* in1+16(FP) *)
    MOVOU_ld 0 AX X1 ]
  ++ SET_MUL_MASK_SSSE3 X7 AX X2
  ++ SET_CONV_MASK_SSSE3 X6 AX X2
  ++ MUL_STANDARD_MAP_SSSE3 X8 X9 X10 X11 X12 X13 X14 X15 X0 X1 X6 X7 X2 X3 X4 X5
  ++
  [ MOVQ_fp 24 AX;           (* out0+24(FP) *)
    MOVOU_ld 0 AX X2;
    PXOR X2 X1;
    MOVOU_st X1 0 AX;
    MOVQ_fp 32 AX;           (* out1+32(FP) *)
    MOVOU_ld 0 AX X2;
    PXOR X2 X0;
    MOVOU_st X0 0 AX ].

(* func mulAndAddSliceSSSE3Unsafe(cEntry *mulTable64Entry, in, out []byte) *)
Definition mulAndAddSliceSSSE3Unsafe_pre : list instr := mulSliceSSSE3Unsafe_pre.

Definition mulAndAddSliceSSSE3Unsafe_body : list instr :=
  [ MOVOU_ld 0 BX X1;
    MOVOU_ld 16 BX X0 ]
  ++ MUL_STANDARD_MAP_SSSE3 X8 X9 X10 X11 X12 X13 X14 X15 X0 X1 X6 X7 X2 X3 X4 X5
  ++
  [ MOVOU_ld 0 CX X2;
    PXOR X2 X0;
    MOVOU_st X0 0 CX;
    MOVOU_ld 16 CX X2;
    PXOR X2 X1;
    MOVOU_st X1 16 CX;
    ADDQ 32 BX;
    ADDQ 32 CX;
    SUBQ 1 AX ].

(** * Entry points *)

(* &mulTable64[c]: s0Low, s4Low, s8Low, s12Low, s0High, s4High, s8High, s12High *)
Definition idx16 : list N := [0;1;2;3;4;5;6;7;8;9;10;11;12;13;14;15].
Definition table64 (c : N) : bytes :=
  map (mt64_low c 0) idx16 ++ map (mt64_low c 1) idx16 ++
  map (mt64_low c 2) idx16 ++ map (mt64_low c 3) idx16 ++
  map (mt64_high c 0) idx16 ++ map (mt64_high c 1) idx16 ++
  map (mt64_high c 2) idx16 ++ map (mt64_high c 3) idx16.

(* registers are not assumed to hold anything on entry; the model starts them at 0 *)
Definition init_state (args : list gval) (mem : list bytes) : state :=
  mkState (repeat (zeros 16) 16) (repeat (GInt 0) 3) mem args.

(* (outLow, outHigh) as standardToAltMapSSSE3Unsafe *)
Definition std_to_alt (in0 in1 : list N) : list N * list N :=
  let st := run standardToAltMapSSSE3Unsafe
                (init_state [GPtr 0 0; GPtr 1 0; GPtr 2 0; GPtr 3 0]
                            [in0; in1; zeros 16; zeros 16]) in
  (membuf st 2, membuf st 3).

(* (out0, out1) as altToStandardMapSSSE3Unsafe *)
Definition alt_to_std (inLow inHigh : list N) : list N * list N :=
  let st := run altToStandardMapSSSE3Unsafe
                (init_state [GPtr 0 0; GPtr 1 0; GPtr 2 0; GPtr 3 0]
                            [inLow; inHigh; zeros 16; zeros 16]) in
  (membuf st 2, membuf st 3).

(* (outLow, outHigh) as mulAltMapSSSE3Unsafe(&mulTable64[c], ...) *)
Definition mul_alt (c : N) (inLow inHigh : list N) : list N * list N :=
  let st := run mulAltMapSSSE3Unsafe
                (init_state [GPtr 0 0; GPtr 1 0; GPtr 2 0; GPtr 3 0; GPtr 4 0]
                            [table64 c; inLow; inHigh; zeros 16; zeros 16]) in
  (membuf st 3, membuf st 4).

(* (out0, out1) as mulSSSE3Unsafe(&mulTable64[c], ...) *)
Definition mul_std (c : N) (in0 in1 : list N) : list N * list N :=
  let st := run mulSSSE3Unsafe
                (init_state [GPtr 0 0; GPtr 1 0; GPtr 2 0; GPtr 3 0; GPtr 4 0]
                            [table64 c; in0; in1; zeros 16; zeros 16]) in
  (membuf st 3, membuf st 4).

(* (out0, out1) after mulAndAddSSSE3Unsafe(&mulTable64[c], ...) *)
Definition muladd_std (c : N) (in0 in1 out0 out1 : list N) : list N * list N :=
  let st := run mulAndAddSSSE3Unsafe
                (init_state [GPtr 0 0; GPtr 1 0; GPtr 2 0; GPtr 3 0; GPtr 4 0]
                            [table64 c; in0; in1; out0; out1]) in
  (membuf st 3, membuf st 4).

(* out after mulSliceSSSE3Unsafe / mulAndAddSliceSSSE3Unsafe (&mulTable64[c], in, out).
   The argument frame is cEntry, in (ptr, len, cap), out (ptr, len, cap).
   The machine loop runs until AX reaches 0; with AX = len/32 = 0 on entry the
   real loop would wrap around (SUBQ gives 2^64-1, JNZ taken) and run off the
   buffers; the fuel [dowhile_iters (len/32)] stops the model after the first
   iteration there, like Model/Kernels.v counts it. *)
Definition ssse3_chunks (c : N) (acc : bool) (inb outb : bytes) : bytes :=
  let st0 := init_state [GPtr 0 0; GPtr 1 0; GInt (lenN inb); GInt (lenN inb);
                         GPtr 2 0; GInt (lenN outb); GInt (lenN outb)]
                        [table64 c; inb; outb] in
  let pre := if acc then mulAndAddSliceSSSE3Unsafe_pre else mulSliceSSSE3Unsafe_pre in
  let body := if acc then mulAndAddSliceSSSE3Unsafe_body else mulSliceSSSE3Unsafe_body in
  let st1 := run pre st0 in
  let fuel := match getg st1 AX with
              | GInt n => N.to_nat (dowhile_iters n)
              | GPtr _ _ => O
              end in
  membuf (run_loop fuel AX body st1) 2.
