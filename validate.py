#!/usr/bin/env python3
"""Validate MANIFEST.json and evidence/*.json against the schemas (needs python3-vt)."""
import json, glob, sys, jsonschema
ok = True
jsonschema.validate(json.load(open('/verif/MANIFEST.json')), json.load(open('/root/.vp/MANIFEST.schema.json')))
es = json.load(open('/root/.vp/EVIDENCE.schema.json'))
for f in sorted(glob.glob('/verif/evidence/*.json')):
    try:
        jsonschema.validate(json.load(open(f)), es)
    except Exception as e:
        ok = False; print("INVALID", f, str(e)[:300])
print("valid" if ok else "INVALID")
