#!/bin/sh
# Statement coverage of /repo reached by the quick tier of all checks (not a registered command; informs DESIGN.md:
# which code the correspondence checks execute).  Usage: tools/coverage.sh [outdir]   (default /tmp/vcov)
set -e
cd "$(dirname "$0")/.."
OUT=${1:-/tmp/vcov}
rm -rf "$OUT"; mkdir -p "$OUT/data" "$OUT/ev"
export GOCOVERDIR="$OUT/data" VERIF_COVER=1 VERIF_EVIDENCE_DIR="$OUT/ev"
export GOFLAGS=-mod=mod GOPROXY=off GOSUMDB=off GOTOOLCHAIN=local
for p in C01 C02 C03 C04 C05 C06 C07 C08 C09 C10 C11 C12 C13 C14 C15 C16 C17 C18 C19 C20; do
  ./check $p --tier quick > "$OUT/$p.log" 2>&1 || echo "$p exit $?"
done
cd /repo
go tool covdata func -i="$OUT/data" > "$OUT/func.txt" 2>&1 || true
go tool covdata percent -i="$OUT/data" > "$OUT/percent.txt" 2>&1 || true
grep -v "100.0%" "$OUT/func.txt" | grep -v "verif_hooks\|^verifharness" > "$OUT/not-fully-covered.txt" || true
cat "$OUT/percent.txt"
