// gotocoq: a translator from a small imperative subset of Go to Gallina (shallow embedding over
// Model/GoSem.v).  Usage: gotocoq <repo root> <out.v>
//
// It re-reads, on every run of the checks that use it, the functions listed in `targets` from the
// repository's CURRENT source, and emits one Gallina definition per function.  coq/GenLink/GoArithLink.v
// then proves that the emitted definitions equal the hand-written model (Model/GF16.v, Model/Parallel.v,
// Model/CRC.v, Model/CLI.v) for all arguments, so the theorems of Props/ are re-checked against what the
// code says now.  Anything outside the subset (range loops, switch, goto, closures, slices other than the
// local ones described below, maps, pointers other than the receiver, calls to functions that are neither
// targets nor whitelisted externs, ...) is refused: the target is reported as NOT TRANSLATED - a broken tie
// that the check reports.
//
// Semantics emitted: unsigned types are N with explicit wrap (wadd/wsub/wmul/wshl/wnot/wrap), int is Z
// without overflow (also for <<; & | ^ >> on int are Z.land/lor/lxor/shiftr), / and % on int are
// Z.quot/Z.rem with a zero-divisor guard, array indexing is guarded (aget), loops take fuel (loop), panics
// are Pnc.  Evaluation order: the calls, index operations and division guards of one statement are hoisted
// in source order; an `a && b` / `a || b` whose right operand needs hoisting is refused.
//
// Local slices and arrays (Model/GoSemList.v): `make([]T, n)` and `var x [k]T` (T unsigned) are lists of N;
// x[i] is lget, x[i] = v is lset, both with Go's bounds check (Pnc).  A slice is never copied to another
// variable nor passed to a target (refused), so sharing is unobservable.  Whitelisted pure external functions
// (externs) become parameters of the definition; `T{f: v}` / `&T{f: v}` of a whitelisted struct type
// (structFiles) is the tuple of its fields.  Go's block scopes are followed (type scope): a variable that
// shadows a visible one, or reuses the name of an out-of-scope variable of another type, gets a primed name.
package main

import (
	"fmt"
	"go/ast"
	"go/parser"
	"go/token"
	"os"
	"path/filepath"
	"sort"
	"strconv"
	"strings"
)

type typ struct {
	kind string // "u", "s", "bool", "untyped", "unit", "mat", "err", "list" (slice), "arr" (fixed-size array), "struct"
	bits int    // width of an integer; width of the (unsigned) elements of a "list" / "arr" (0: the legacy []T of globalLists)
	n    int    // length of an "arr"
	name string // Go name of a "struct" (a key of structFiles)
}

var (
	tInt     = typ{kind: "s", bits: 64}
	tBool    = typ{kind: "bool", bits: 0}
	tUntyped = typ{kind: "untyped", bits: 0}
)

func (t typ) coq() string {
	switch t.kind {
	case "mat":
		return "(list (list N))"
	case "err":
		return "bool"
	case "list", "arr":
		return "(list N)"
	case "struct":
		var fs []string
		for _, f := range structFields[t.name] {
			fs = append(fs, f.t.coq())
		}
		return "(" + strings.Join(fs, " * ") + ")"
	case "u":
		return "N"
	case "s":
		return "Z"
	case "bool":
		return "bool"
	}
	return "unit"
}

var named = map[string]typ{
	"int": tInt, "uint": {kind: "u", bits: 64}, "uint8": {kind: "u", bits: 8}, "byte": {kind: "u", bits: 8}, "uint16": {kind: "u", bits: 16}, "uint32": {kind: "u", bits: 32},
	"uint64": {kind: "u", bits: 64}, "bool": tBool, "T": {kind: "u", bits: 16}, "Poly64": {kind: "u", bits: 64},
	"Matrix": {kind: "mat", bits: 0}, "error": {kind: "err", bits: 0}, // a Matrix is its list of rows; an error is true when non-nil
}

type array struct {
	coq  string
	len  int
	elem typ
}

// global / field / imported arrays a target may index; they become leading parameters (functions N -> N)
var arrays = map[string]array{
	"logTable":                  {"logTable", 65535, typ{kind: "u", bits: 16}},
	"expTable":                  {"expTable", 65535, typ{kind: "u", bits: 16}},
	"crc32.IEEETable":           {"ieeeTable", 256, typ{kind: "u", bits: 32}},
	"w.crcOldLeaderMaskedTable": {"maskedTable", 256, typ{kind: "u", bits: 32}},
}

// pure external functions a target may call: they become parameters of the generated definition (after the
// arrays), to be instantiated by the link theorem.  Assumed of the Go function: it terminates without a panic, its
// result depends on the argument VALUES only, and it neither modifies nor retains a slice argument.
type extern struct {
	pkg          string // import path that the qualifier must denote in the target's file
	coq, coqType string
	params       []typ
	result       typ
}

var externs = map[string]extern{
	"crc32.ChecksumIEEE": {"hash/crc32", "checksumIEEE", "list N -> N", []typ{{kind: "list", bits: 8}}, typ{kind: "u", bits: 32}},
}

// struct types a target may build with a composite literal (T{f: v, ...} or &T{f: v, ...}): name -> file declaring
// it.  The fields are read from the declaration; a value of the type is the tuple of its fields in DECLARATION
// order.  Only a fresh literal is a value of the type (no field access, no assignment through a pointer), so the
// pointer of &T{...} is never aliased and is identified with the value.
var structFiles = map[string]string{"crc32Window": "par2/crc32.go"}

type field struct {
	name string
	t    typ
}

var structFields = map[string][]field{}

type target struct {
	file, recv, name, coq string
	fuel                  int
	fuelExpr              string   // a Gallina nat expression over the parameters, used instead of fuel when set
	inout                 []string // variables mutated through a shared slice: their final values are returned too
	usesMul               bool     // the row operations multiply in the field: `mul` becomes a parameter
}

var targets = []target{
	{"gf2/poly64.go", "Poly64", "Plus", "gen_Poly64_Plus", 0, "", nil, false},
	{"gf2/poly64.go", "Poly64", "Minus", "gen_Poly64_Minus", 0, "", nil, false},
	{"gf2/poly64.go", "Poly64", "Times", "gen_Poly64_Times", 70, "", nil, false},
	{"gf2/poly64.go", "", "ilog2", "gen_ilog2", 70, "", nil, false},
	{"gf2/poly64.go", "Poly64", "Div", "gen_Poly64_Div", 70, "", nil, false},
	{"gf2p16/t.go", "T", "Plus", "gen_T_Plus", 0, "", nil, false},
	{"gf2p16/t.go", "T", "Minus", "gen_T_Minus", 0, "", nil, false},
	{"gf2p16/t.go", "T", "Times", "gen_T_Times", 0, "", nil, false},
	{"gf2p16/t.go", "T", "Inverse", "gen_T_Inverse", 0, "", nil, false},
	{"gf2p16/t.go", "T", "Div", "gen_T_Div", 0, "", nil, false},
	{"gf2p16/t.go", "T", "Pow", "gen_T_Pow", 0, "", nil, false},
	{"rsec16/matrix.go", "", "calculateParallelParams", "gen_calculateParallelParams", 0, "", nil, false},
	{"par2/crc32.go", "crc32Window", "update", "gen_crc32Window_update", 0, "", nil, false},
	{"gf2p16/matrix.go", "Matrix", "rowReduceForInverse", "gen_rowReduceForInverse", 0, "(S (length m))", []string{"m", "n"}, true},
	// the table of PAR2 constants: `generators` is a package-level slice the function appends to (in/out, starts empty)
	{"rsec16/coder.go", "", "init", "gen_coder_init", 65540, "", []string{"generators"}, false},
	// the table of the rolling CRC: two loops of 8 rounds and one of 255; crc32.ChecksumIEEE is the parameter checksumIEEE
	{"par2/crc32.go", "", "newCRC32Window", "gen_newCRC32Window", 300, "", nil, false},
}

// package-level slices of 16-bit field elements that a target may append to: they start empty and are returned
var globalLists = map[string]bool{"generators": true}

// byte-array variables initialised by a composite literal of character constants: file, variable, array length
var byteArrays = []struct {
	file, name string
	n          int
}{
	{"par2/packet.go", "expectedMagic", 8},
	{"par2/main_packet.go", "mainPacketType", 16},
	{"par2/file_description_packet.go", "fileDescriptionPacketType", 16},
	{"par2/ifsc_packet.go", "ifscPacketType", 16},
	{"par2/recovery_packet.go", "recoveryPacketType", 16},
	{"par2/creator_packet.go", "creatorPacketType", 16},
	{"par1/header.go", "expectedID", 8},
}

// constant blocks emitted as Definitions (name -> value), file by file
var constFiles = []string{"par2cmdline/exit_codes.go", "gf2p16/t.go"}

type bad struct{ msg string }

func fail(n ast.Node, fset *token.FileSet, format string, a ...interface{}) {
	pos := ""
	if n != nil && fset != nil {
		pos = fset.Position(n.Pos()).String() + ": "
	}
	panic(bad{pos + fmt.Sprintf(format, a...)})
}

type sig struct {
	t       target
	params  []string
	ptypes  []typ
	results []typ
	arrays  []string // coq names of arrays used (transitively), sorted
	externs []string // keys (in externs) of the external functions used (transitively), sorted by coq name
}

// A lexical scope of the Go function: Go name -> Gallina name.  The Gallina namespace of a function is flat (one
// tuple of locals), so a Go variable declared while another variable of the same name is visible, or with another
// type than an earlier (no longer visible) variable of the same name, gets a primed Gallina name (i', then two primes, ...: no
// Go identifier contains a prime); a variable whose name and type equal those of a variable that is out of scope
// reuses its slot.
type scope struct {
	parent *scope
	names  map[string]string
}

type fn struct {
	fset    *token.FileSet
	consts  map[string]int64
	sigs    map[string]*sig // key recv+"."+name
	cur     *sig
	vars    []string
	vtypes  map[string]typ
	rnames  []string
	used    map[string]bool // arrays used
	usedExt map[string]bool // externs used (keys of externs)
	tmp     int
	recvVar string
	scope   *scope
	imports map[string]string // local package name -> import path, of the target's file
}

// ---------- constants ----------
func evalConst(e ast.Expr, consts map[string]int64) (int64, bool) {
	switch x := e.(type) {
	case *ast.BasicLit:
		if x.Kind == token.INT {
			v, err := strconv.ParseInt(x.Value, 0, 64)
			if err == nil {
				return v, true
			}
			u, err := strconv.ParseUint(x.Value, 0, 64)
			return int64(u), err == nil && u < 1<<63
		}
	case *ast.Ident:
		v, ok := consts[x.Name]
		return v, ok
	case *ast.ParenExpr:
		return evalConst(x.X, consts)
	case *ast.BinaryExpr:
		a, ok1 := evalConst(x.X, consts)
		b, ok2 := evalConst(x.Y, consts)
		if !ok1 || !ok2 {
			return 0, false
		}
		switch x.Op {
		case token.ADD:
			return a + b, true
		case token.SUB:
			return a - b, true
		case token.MUL:
			return a * b, true
		case token.SHL:
			return a << uint(b), true
		case token.SHR:
			return a >> uint(b), true
		case token.OR:
			return a | b, true
		case token.AND:
			return a & b, true
		}
	case *ast.UnaryExpr:
		a, ok := evalConst(x.X, consts)
		if ok && x.Op == token.SUB {
			return -a, true
		}
	}
	return 0, false
}

func collectConsts(f *ast.File, consts map[string]int64) []string {
	var order []string
	for _, d := range f.Decls {
		g, ok := d.(*ast.GenDecl)
		if !ok || g.Tok != token.CONST {
			continue
		}
		for _, s := range g.Specs {
			vs := s.(*ast.ValueSpec)
			for i, n := range vs.Names {
				if i < len(vs.Values) {
					if v, ok := evalConst(vs.Values[i], consts); ok {
						consts[n.Name] = v
						order = append(order, n.Name)
					}
				}
			}
		}
	}
	return order
}

// ---------- types ----------
func (c *fn) typeOf(e ast.Expr) typ {
	switch x := e.(type) {
	case *ast.Ident:
		if t, ok := named[x.Name]; ok {
			return t
		}
	case *ast.SelectorExpr:
		if t, ok := named[x.Sel.Name]; ok {
			return t
		}
	case *ast.StarExpr:
		return c.typeOf(x.X)
	case *ast.ArrayType:
		et := c.typeOf(x.Elt)
		if et.kind != "u" {
			fail(e, c.fset, "slice / array of elements that are not unsigned integers")
		}
		if x.Len == nil {
			return typ{kind: "list", bits: et.bits}
		}
		n, ok := evalConst(x.Len, c.consts)
		if !ok || n < 0 || n > 1<<20 {
			fail(e, c.fset, "array length that is not a small constant")
		}
		return typ{kind: "arr", bits: et.bits, n: int(n)}
	}
	if id, ok := e.(*ast.Ident); ok {
		if _, ok := structFields[id.Name]; ok {
			return typ{kind: "struct", name: id.Name}
		}
	}
	fail(e, c.fset, "unsupported type expression")
	return typ{}
}

// zeroOf is the Gallina term of the zero value of t
func zeroOf(t typ) string {
	switch t.kind {
	case "u", "s":
		return lit(0, t)
	case "bool":
		return "false"
	case "list":
		return "(@nil N)" // a nil slice
	case "arr":
		return fmt.Sprintf("(repeat 0 %d%%nat)", t.n)
	}
	panic(bad{"no zero value for a variable of kind " + t.kind})
}

// ---------- scopes ----------
func newScope(parent *scope) *scope { return &scope{parent: parent, names: map[string]string{}} }

// resolve gives the Gallina name of the Go variable visible under this name ("" if none)
func (c *fn) resolve(name string) string {
	for s := c.scope; s != nil; s = s.parent {
		if n, ok := s.names[name]; ok {
			return n
		}
	}
	return ""
}

// visibleCoq: is a Gallina name the name of a variable that is in scope?
func (c *fn) visibleCoq(coq string) bool {
	for s := c.scope; s != nil; s = s.parent {
		for _, n := range s.names {
			if n == coq {
				return true
			}
		}
	}
	return false
}

// inScope translates a block in a scope of its own; rest (the fall-through continuation) runs in the outer scope
func (c *fn) inScope(stmts []ast.Stmt, rest func() string) string {
	outer := c.scope
	inner := newScope(outer)
	c.scope = inner
	r := c.block(stmts, func() string {
		c.scope = outer
		s := rest()
		c.scope = inner
		return s
	})
	c.scope = outer
	return r
}

func isTypeExpr(e ast.Expr) (typ, bool) {
	switch x := e.(type) {
	case *ast.Ident:
		t, ok := named[x.Name]
		return t, ok
	case *ast.SelectorExpr:
		if _, isPkg := x.X.(*ast.Ident); isPkg {
			t, ok := named[x.Sel.Name]
			return t, ok
		}
	case *ast.ParenExpr:
		return isTypeExpr(x.X)
	}
	return typ{}, false
}

func lit(v int64, t typ) string {
	if t.kind == "s" || t.kind == "untyped" {
		return fmt.Sprintf("(%d)%%Z", v)
	}
	if v < 0 {
		panic(bad{"negative constant for an unsigned type"})
	}
	return fmt.Sprintf("%d", v)
}

type bind struct{ text string } // a prefix "… (fun v => " to be closed by one ")"

type ectx struct {
	binds []string
}

func (c *fn) fresh() string { c.tmp++; return fmt.Sprintf("t%d_", c.tmp) }

// conv converts a term of type from to type to
func conv(term string, from, to typ) string {
	if from == to {
		return term
	}
	switch {
	case from.kind == "u" && to.kind == "u":
		if to.bits >= from.bits {
			return term
		}
		return fmt.Sprintf("(wrap %d %s)", to.bits, term)
	case from.kind == "u" && to.kind == "s":
		return fmt.Sprintf("(Z.of_N %s)", term)
	case from.kind == "s" && to.kind == "u":
		return fmt.Sprintf("(z2u %d %s)", to.bits, term)
	}
	panic(bad{"unsupported conversion " + from.kind + " -> " + to.kind})
}

// expr translates e; want is the type an untyped constant (or untyped shift) should take (kind "" = none)
func (c *fn) expr(e ast.Expr, want typ, ec *ectx) (string, typ) {
	if v, ok := evalConst(e, c.consts); ok {
		if _, isIdent := e.(*ast.Ident); !isIdent || true {
			if want.kind == "u" || want.kind == "s" {
				return lit(v, want), want
			}
			return lit(v, tUntyped), tUntyped
		}
	}
	switch x := e.(type) {
	case *ast.ParenExpr:
		return c.expr(x.X, want, ec)
	case *ast.Ident:
		if x.Name == "true" || x.Name == "false" {
			return x.Name, tBool
		}
		if x.Name == "nil" && want.kind == "err" {
			return "false", want
		}
		cn := c.resolve(x.Name)
		t, ok := c.vtypes[cn]
		if !ok || cn == "" {
			fail(e, c.fset, "unknown identifier %s", x.Name)
		}
		return cn, t
	case *ast.CompositeLit:
		return c.structLit(x, ec)
	case *ast.UnaryExpr:
		if cl, ok := x.X.(*ast.CompositeLit); ok && x.Op == token.AND {
			return c.structLit(cl, ec) // a fresh pointer that nothing else holds: identified with the value
		}
		a, t := c.expr(x.X, want, ec)
		switch x.Op {
		case token.SUB:
			if t.kind == "s" {
				return fmt.Sprintf("(Z.opp %s)", a), t
			}
			if t.kind == "u" {
				return fmt.Sprintf("(wsub %d 0 %s)", t.bits, a), t
			}
		case token.XOR:
			if t.kind == "u" {
				return fmt.Sprintf("(wnot %d %s)", t.bits, a), t
			}
		case token.NOT:
			if t.kind == "bool" {
				return fmt.Sprintf("(negb %s)", a), t
			}
		}
		fail(e, c.fset, "unsupported unary operator %s on %s", x.Op, t.kind)
	case *ast.BinaryExpr:
		return c.binary(x, want, ec)
	case *ast.CallExpr:
		if t, ok := isTypeExpr(x.Fun); ok && len(x.Args) == 1 {
			a, ta := c.expr(x.Args[0], t, ec)
			if ta.kind == "untyped" {
				v, _ := evalConst(x.Args[0], c.consts)
				return lit(v, t), t
			}
			return conv(a, ta, t), t
		}
		if id, ok := x.Fun.(*ast.Ident); ok && id.Name == "make" && c.resolve("make") == "" {
			return c.makeSlice(x, ec)
		}
		if ext, ok := externs[exprKey(x.Fun)]; ok {
			if id, isId := x.Fun.(*ast.SelectorExpr).X.(*ast.Ident); !isId || c.resolve(id.Name) != "" || c.imports[id.Name] != ext.pkg {
				fail(e, c.fset, "%s: the qualifier is not the package %s here", exprKey(x.Fun), ext.pkg)
			}
			if len(x.Args) != len(ext.params) || x.Ellipsis.IsValid() {
				fail(e, c.fset, "argument count in the call of %s", exprKey(x.Fun))
			}
			var terms []string
			for i, a := range x.Args {
				t, ta := c.expr(a, ext.params[i], ec)
				if ta.kind == "untyped" {
					v, _ := evalConst(a, c.consts)
					t, ta = lit(v, ext.params[i]), ext.params[i]
				}
				if ta != ext.params[i] {
					fail(a, c.fset, "argument type mismatch in the call of %s", exprKey(x.Fun))
				}
				terms = append(terms, t)
			}
			c.usedExt[exprKey(x.Fun)] = true
			return fmt.Sprintf("(%s %s)", ext.coq, strings.Join(terms, " ")), ext.result
		}
		if sel, ok := x.Fun.(*ast.SelectorExpr); ok {
			if id, ok := sel.X.(*ast.Ident); ok && c.vt(id.Name).kind == "mat" && sel.Sel.Name == "At" && len(x.Args) == 2 {
				// m.At(i, j): both indices are range-checked by the Go code
				i := c.matIndex(id.Name, x.Args[0], true, ec)
				j := c.matIndex(id.Name, x.Args[1], false, ec)
				return fmt.Sprintf("(Matrix.ent %s %s %s)", id.Name, i, j), typ{kind: "u", bits: 16}
			}
			if id, ok := sel.X.(*ast.Ident); ok && id.Name == "errors" && sel.Sel.Name == "New" {
				return "true", typ{kind: "err", bits: 0}
			}
		}
		vals, ts := c.call(x, ec)
		if len(ts) != 1 {
			fail(e, c.fset, "call with %d results in expression position", len(ts))
		}
		return vals[0], ts[0]
	case *ast.SelectorExpr:
		if id, ok := x.X.(*ast.Ident); ok && c.vt(id.Name).kind == "mat" && x.Sel.Name == "rows" {
			return fmt.Sprintf("(Z.of_nat (length %s))", id.Name), tInt
		}
		fail(e, c.fset, "unsupported selector %s", exprKey(e))
	case *ast.IndexExpr:
		key := exprKey(x.X)
		if id, isId := x.X.(*ast.Ident); isId && c.resolve(id.Name) != "" {
			// a local slice (made by make) or a local fixed-size array: a list, indexed with Go's bounds check
			cn := c.resolve(id.Name)
			lt := c.vtypes[cn]
			if (lt.kind != "list" && lt.kind != "arr") || lt.bits == 0 {
				fail(e, c.fset, "indexing of %s, which is not a slice / array of unsigned integers", key)
			}
			idx, late := c.index(x.Index, ec)
			ec.binds = append(ec.binds, late...)
			v := c.fresh()
			ec.binds = append(ec.binds, fmt.Sprintf("lget %s %s (fun %s => ", cn, idx, v))
			return v, typ{kind: "u", bits: lt.bits}
		}
		arr, ok := arrays[key]
		if !ok {
			fail(e, c.fset, "indexing of %s is not supported", key)
		}
		c.used[arr.coq] = true
		idx, late := c.index(x.Index, ec)
		ec.binds = append(ec.binds, late...)
		v := c.fresh()
		ec.binds = append(ec.binds, fmt.Sprintf("aget %s %d %s (fun %s => ", arr.coq, arr.len, idx, v))
		return v, arr.elem
	}
	fail(e, c.fset, "unsupported expression %T", e)
	return "", typ{}
}

// vt is the type of the Go variable visible under this name (the zero typ if there is none)
func (c *fn) vt(name string) typ { return c.vtypes[c.resolve(name)] }

// index translates an index expression to a term of type N.  Its operands are evaluated (hoisted into ec) now; the
// check that a signed index is not negative is returned separately (late), because in an assignment a[i] = v Go
// evaluates v before it indexes.
func (c *fn) index(e ast.Expr, ec *ectx) (idx string, late []string) {
	if cv, ok := evalConst(e, c.consts); ok {
		return lit(cv, typ{kind: "u", bits: 64}), nil // a constant index (a negative one does not compile)
	}
	i, ti := c.expr(e, tInt, ec)
	switch ti.kind {
	case "u":
		idx = i
	case "s":
		v := c.fresh()
		late = append(late, fmt.Sprintf("zidx %s (fun %s => ", i, v))
		idx = v
	case "untyped":
		cv, _ := evalConst(e, c.consts)
		idx = lit(cv, typ{kind: "u", bits: 64})
	default:
		fail(e, c.fset, "index of kind %s", ti.kind)
	}
	return idx, late
}

// makeSlice translates make([]T, n) for an unsigned integer type T: n zeros; a negative n panics (mkzeros).  (Go
// also panics when n elements exceed the address space; lengths that large are outside the model, like int overflow.)
func (c *fn) makeSlice(x *ast.CallExpr, ec *ectx) (string, typ) {
	if len(x.Args) != 2 {
		fail(x, c.fset, "only make([]T, n) is supported")
	}
	at, ok := x.Args[0].(*ast.ArrayType)
	if !ok || at.Len != nil {
		fail(x, c.fset, "make of something that is not a slice")
	}
	t := c.typeOf(at)
	n, tn := c.expr(x.Args[1], tInt, ec)
	switch tn.kind {
	case "s":
	case "u":
		n = fmt.Sprintf("(Z.of_N %s)", n)
	case "untyped":
		v, _ := evalConst(x.Args[1], c.consts)
		n = lit(v, tInt)
	default:
		fail(x, c.fset, "length of kind %s", tn.kind)
	}
	v := c.fresh()
	ec.binds = append(ec.binds, fmt.Sprintf("mkzeros %s (fun %s => ", n, v))
	return v, t
}

// structLit translates T{f: v, ...} for a struct type of structFiles: the tuple of the fields in declaration order
func (c *fn) structLit(cl *ast.CompositeLit, ec *ectx) (string, typ) {
	if cl.Type == nil {
		fail(cl, c.fset, "composite literal without a type")
	}
	t := c.typeOf(cl.Type)
	if t.kind != "struct" {
		fail(cl, c.fset, "composite literal of a type that is not a whitelisted struct")
	}
	fields := structFields[t.name]
	vals := make([]string, len(fields))
	for _, el := range cl.Elts { // Go evaluates the field values in the order they are written
		kv, ok := el.(*ast.KeyValueExpr)
		if !ok {
			fail(el, c.fset, "struct literal without field names")
		}
		k, ok := kv.Key.(*ast.Ident)
		if !ok {
			fail(el, c.fset, "unsupported field key")
		}
		fi := -1
		for i, f := range fields {
			if f.name == k.Name {
				fi = i
			}
		}
		if fi < 0 || vals[fi] != "" {
			fail(el, c.fset, "unknown or repeated field %s", k.Name)
		}
		ft := fields[fi].t
		v, tv := c.expr(kv.Value, ft, ec)
		if tv.kind == "untyped" {
			cv, _ := evalConst(kv.Value, c.consts)
			v, tv = lit(cv, ft), ft
		}
		if tv != ft {
			fail(el, c.fset, "type mismatch in field %s", k.Name)
		}
		vals[fi] = v
	}
	for i, f := range fields {
		if vals[i] == "" {
			fail(cl, c.fset, "field %s is not given (zero-filling is not supported)", f.name)
		}
	}
	if len(vals) == 1 {
		return vals[0], t
	}
	return "(" + strings.Join(vals, ", ") + ")", t
}

func exprKey(e ast.Expr) string {
	switch x := e.(type) {
	case *ast.Ident:
		return x.Name
	case *ast.SelectorExpr:
		return exprKey(x.X) + "." + x.Sel.Name
	}
	return "?"
}

func (c *fn) binary(x *ast.BinaryExpr, want typ, ec *ectx) (string, typ) {
	op := x.Op
	if op == token.LAND || op == token.LOR {
		a, ta := c.expr(x.X, tBool, ec)
		n := len(ec.binds)
		b, tb := c.expr(x.Y, tBool, ec)
		if len(ec.binds) != n {
			fail(x, c.fset, "the right operand of %s needs a call, an index or a division (evaluation order not modelled)", op)
		}
		if ta.kind != "bool" || tb.kind != "bool" {
			fail(x, c.fset, "non-boolean operand of %s", op)
		}
		if op == token.LAND {
			return fmt.Sprintf("(andb %s %s)", a, b), tBool
		}
		return fmt.Sprintf("(orb %s %s)", a, b), tBool
	}
	if op == token.SHL || op == token.SHR {
		a, ta := c.expr(x.X, want, ec)
		if ta.kind == "untyped" {
			if want.kind != "u" && want.kind != "s" {
				want = tInt
			}
			v, _ := evalConst(x.X, c.consts)
			a, ta = lit(v, want), want
		}
		k, tk := c.expr(x.Y, typ{kind: "u", bits: 64}, ec)
		switch tk.kind {
		case "s":
			ec.binds = append(ec.binds, fmt.Sprintf("guard (Z.ltb %s (0)%%Z) (", k)) // a negative shift count panics
			k = fmt.Sprintf("(Z.to_N %s)", k)
		case "untyped":
			v, _ := evalConst(x.Y, c.consts)
			k = lit(v, typ{kind: "u", bits: 64})
		}
		if ta.kind == "s" {
			// int is Z: << does not overflow (like + and *), >> is the arithmetic shift
			if op == token.SHL {
				return fmt.Sprintf("(Z.shiftl %s (Z.of_N %s))", a, k), ta
			}
			return fmt.Sprintf("(Z.shiftr %s (Z.of_N %s))", a, k), ta
		}
		if ta.kind != "u" {
			fail(x, c.fset, "shift of a value of kind %s", ta.kind)
		}
		if op == token.SHL {
			return fmt.Sprintf("(wshl %d %s %s)", ta.bits, a, k), ta
		}
		return fmt.Sprintf("(N.shiftr %s %s)", a, k), ta
	}
	cmp := map[token.Token]bool{token.EQL: true, token.NEQ: true, token.LSS: true, token.LEQ: true, token.GTR: true, token.GEQ: true}[op]
	w := want
	if cmp {
		w = typ{}
	}
	operand := func(e ast.Expr, w typ) (string, typ) {
		if _, ok := evalConst(e, c.consts); ok {
			return "", tUntyped // constants take the type of the other operand
		}
		return c.expr(e, w, ec)
	}
	// a non-constant shift of an untyped constant (1 << j) takes the type the constant would have without the shift:
	// here, the type of the other operand
	wx, wy := w, w
	if w.kind == "" {
		if c.untypedShift(x.X) && !c.untypedShift(x.Y) {
			wx = c.probe(x.Y)
		} else if c.untypedShift(x.Y) && !c.untypedShift(x.X) {
			wy = c.probe(x.X)
		}
	}
	a, ta := operand(x.X, wx)
	b, tb := operand(x.Y, wy)
	if ta.kind == "untyped" && tb.kind == "untyped" {
		fail(x, c.fset, "constant expression that could not be folded")
	}
	// unify
	if ta.kind == "untyped" && tb.kind != "untyped" {
		v, _ := evalConst(x.X, c.consts)
		a, ta = lit(v, tb), tb
	}
	if tb.kind == "untyped" && ta.kind != "untyped" {
		v, _ := evalConst(x.Y, c.consts)
		b, tb = lit(v, ta), ta
	}
	if ta.kind == "untyped" && tb.kind == "untyped" {
		fail(x, c.fset, "constant expression that could not be folded")
	}
	if ta != tb {
		fail(x, c.fset, "operands of different types (%s%d, %s%d)", ta.kind, ta.bits, tb.kind, tb.bits)
	}
	t := ta
	if cmp {
		var s string
		pre := "N"
		if t.kind == "s" {
			pre = "Z"
		}
		if t.kind == "bool" {
			if op == token.EQL {
				return fmt.Sprintf("(Bool.eqb %s %s)", a, b), tBool
			}
			return fmt.Sprintf("(negb (Bool.eqb %s %s))", a, b), tBool
		}
		switch op {
		case token.EQL:
			s = fmt.Sprintf("(%s.eqb %s %s)", pre, a, b)
		case token.NEQ:
			s = fmt.Sprintf("(negb (%s.eqb %s %s))", pre, a, b)
		case token.LSS:
			s = fmt.Sprintf("(%s.ltb %s %s)", pre, a, b)
		case token.LEQ:
			s = fmt.Sprintf("(%s.leb %s %s)", pre, a, b)
		case token.GTR:
			s = fmt.Sprintf("(%s.ltb %s %s)", pre, b, a)
		case token.GEQ:
			s = fmt.Sprintf("(%s.leb %s %s)", pre, b, a)
		}
		return s, tBool
	}
	if t.kind == "u" {
		switch op {
		case token.ADD:
			return fmt.Sprintf("(wadd %d %s %s)", t.bits, a, b), t
		case token.SUB:
			return fmt.Sprintf("(wsub %d %s %s)", t.bits, a, b), t
		case token.MUL:
			return fmt.Sprintf("(wmul %d %s %s)", t.bits, a, b), t
		case token.XOR:
			return fmt.Sprintf("(N.lxor %s %s)", a, b), t
		case token.AND:
			return fmt.Sprintf("(N.land %s %s)", a, b), t
		case token.OR:
			return fmt.Sprintf("(N.lor %s %s)", a, b), t
		case token.QUO, token.REM:
			if _, isConst := evalConst(x.Y, c.consts); !isConst {
				ec.binds = append(ec.binds, fmt.Sprintf("guard (N.eqb %s 0) (", b))
			} else if v, _ := evalConst(x.Y, c.consts); v == 0 {
				fail(x, c.fset, "division by the constant 0")
			}
			if op == token.QUO {
				return fmt.Sprintf("(N.div %s %s)", a, b), t
			}
			return fmt.Sprintf("(N.modulo %s %s)", a, b), t
		}
	}
	if t.kind == "s" {
		switch op {
		case token.ADD:
			return fmt.Sprintf("(Z.add %s %s)", a, b), t
		case token.SUB:
			return fmt.Sprintf("(Z.sub %s %s)", a, b), t
		case token.MUL:
			return fmt.Sprintf("(Z.mul %s %s)", a, b), t
		case token.QUO, token.REM:
			if _, isConst := evalConst(x.Y, c.consts); !isConst {
				ec.binds = append(ec.binds, fmt.Sprintf("guard (Z.eqb %s 0) (", b))
			} else if v, _ := evalConst(x.Y, c.consts); v == 0 {
				fail(x, c.fset, "division by the constant 0")
			}
			if op == token.QUO {
				return fmt.Sprintf("(Z.quot %s %s)", a, b), t
			}
			return fmt.Sprintf("(Z.rem %s %s)", a, b), t
		case token.AND: // two's complement on Z, as on int
			return fmt.Sprintf("(Z.land %s %s)", a, b), t
		case token.OR:
			return fmt.Sprintf("(Z.lor %s %s)", a, b), t
		case token.XOR:
			return fmt.Sprintf("(Z.lxor %s %s)", a, b), t
		}
	}
	fail(x, c.fset, "unsupported operator %s on %s", op, t.kind)
	return "", typ{}
}

// untypedShift: is e (parentheses aside) a non-constant shift whose left operand is an untyped constant?
func (c *fn) untypedShift(e ast.Expr) bool {
	for {
		p, ok := e.(*ast.ParenExpr)
		if !ok {
			break
		}
		e = p.X
	}
	b, ok := e.(*ast.BinaryExpr)
	if !ok || (b.Op != token.SHL && b.Op != token.SHR) {
		return false
	}
	if _, isConst := evalConst(b, c.consts); isConst {
		return false
	}
	_, leftConst := evalConst(b.X, c.consts)
	return leftConst
}

// probe gives the integer type of e (the zero typ when it has none) without emitting anything
func (c *fn) probe(e ast.Expr) typ {
	save, saveUsed, saveExt := c.tmp, c.used, c.usedExt
	c.used, c.usedExt = map[string]bool{}, map[string]bool{}
	_, t := c.expr(e, typ{}, &ectx{})
	c.tmp, c.used, c.usedExt = save, saveUsed, saveExt
	if t.kind == "u" || t.kind == "s" {
		return t
	}
	return typ{}
}

// call translates a call to another target; returns the result terms
func (c *fn) call(x *ast.CallExpr, ec *ectx) ([]string, []typ) {
	var key string
	var args []ast.Expr
	switch f := x.Fun.(type) {
	case *ast.Ident:
		key = "." + f.Name
	case *ast.SelectorExpr:
		// method call: receiver expression typed by translation
		probe := &ectx{}
		save := c.tmp
		_, rt := c.expr(f.X, typ{}, probe)
		c.tmp = save
		rname := ""
		for n, t := range named {
			if t == rt && (n == "T" || n == "Poly64") {
				rname = n
			}
		}
		key = rname + "." + f.Sel.Name
		args = append(args, f.X)
	default:
		fail(x, c.fset, "unsupported call")
	}
	args = append(args, x.Args...)
	s, ok := c.sigs[key]
	if !ok {
		fail(x, c.fset, "call to %s, which is not a translated function", key)
	}
	if len(args) != len(s.ptypes) {
		fail(x, c.fset, "argument count")
	}
	var terms []string
	for _, a := range s.arrays {
		c.used[a] = true
		terms = append(terms, a)
	}
	for _, e := range s.externs {
		c.usedExt[e] = true
		terms = append(terms, externs[e].coq)
	}
	for i, a := range args {
		t, ta := c.expr(a, s.ptypes[i], ec)
		if ta.kind == "untyped" {
			v, _ := evalConst(a, c.consts)
			t, ta = lit(v, s.ptypes[i]), s.ptypes[i]
		}
		if ta != s.ptypes[i] {
			fail(a, c.fset, "argument type mismatch in call to %s", key)
		}
		terms = append(terms, t)
	}
	var vs []string
	for range s.results {
		vs = append(vs, c.fresh())
	}
	pat := "_"
	if len(vs) == 1 {
		pat = vs[0]
	} else if len(vs) > 1 {
		pat = "'(" + strings.Join(vs, ", ") + ")"
	}
	ec.binds = append(ec.binds, fmt.Sprintf("call (%s %s) (fun %s => ", s.t.coq, strings.Join(terms, " "), pat))
	return vs, s.results
}

func wrapBinds(ec *ectx, body string) string {
	s := body
	for i := len(ec.binds) - 1; i >= 0; i-- {
		s = ec.binds[i] + s + ")"
	}
	return s
}

func (c *fn) tuple() string {
	if len(c.vars) == 0 {
		return "tt"
	}
	return "(" + strings.Join(c.vars, ", ") + ")"
}

func (c *fn) pat() string {
	if len(c.vars) == 0 {
		return "_"
	}
	if len(c.vars) == 1 {
		return c.vars[0]
	}
	return "'(" + strings.Join(c.vars, ", ") + ")"
}

// declare declares the Go variable name in the current scope and returns its Gallina name (see type scope)
func (c *fn) declare(name string, t typ, n ast.Node) string {
	if name == "_" {
		return "_"
	}
	if cn, ok := c.scope.names[name]; ok { // `:=` with an old variable of this very scope on the left
		if c.vtypes[cn] != t {
			fail(n, c.fset, "variable %s redeclared with another type", name)
		}
		return cn
	}
	cand := name
	for {
		old, used := c.vtypes[cand]
		if !c.visibleCoq(cand) && (!used || old == t) {
			if !used {
				c.vtypes[cand] = t
				c.vars = append(c.vars, cand)
			}
			break
		}
		cand += "'"
	}
	c.scope.names[name] = cand
	return cand
}

func (c *fn) retTerm(vals []string) string {
	vals = append(append([]string{}, vals...), c.cur.t.inout...)
	if len(vals) == 0 {
		return "Ret tt"
	}
	if len(vals) == 1 {
		return "Ret " + vals[0]
	}
	return "Ret (" + strings.Join(vals, ", ") + ")"
}

// block translates statements; rest is the term to continue with when the block falls through
func (c *fn) block(stmts []ast.Stmt, rest func() string) string {
	if len(stmts) == 0 {
		return rest()
	}
	s := stmts[0]
	next := func() string { return c.block(stmts[1:], rest) }
	switch x := s.(type) {
	case *ast.DeclStmt:
		g := x.Decl.(*ast.GenDecl)
		if g.Tok == token.CONST {
			for _, sp := range g.Specs {
				vs := sp.(*ast.ValueSpec)
				for i, n := range vs.Names {
					v, ok := evalConst(vs.Values[i], c.consts)
					if !ok {
						fail(s, c.fset, "local constant that could not be evaluated")
					}
					c.consts[n.Name] = v
				}
			}
			return next()
		}
		if g.Tok != token.VAR {
			fail(s, c.fset, "unsupported declaration")
		}
		out := ""
		for _, sp := range g.Specs {
			vs := sp.(*ast.ValueSpec)
			if vs.Type == nil || len(vs.Values) != 0 {
				fail(s, c.fset, "only `var x T` declarations are supported")
			}
			t := c.typeOf(vs.Type)
			for _, n := range vs.Names {
				cn := c.declare(n.Name, t, s)
				out += fmt.Sprintf("let %s := %s in\n", cn, zeroOf(t))
			}
		}
		return out + next()
	case *ast.AssignStmt:
		return c.assign(x, next)
	case *ast.IncDecStmt:
		id, ok := x.X.(*ast.Ident)
		if !ok {
			fail(s, c.fset, "unsupported ++/--")
		}
		cn := c.resolve(id.Name)
		t := c.vtypes[cn]
		if cn == "" || (t.kind != "u" && t.kind != "s") {
			fail(s, c.fset, "++/-- of %s, which is not an integer variable", id.Name)
		}
		one := lit(1, t)
		var term string
		if t.kind == "u" {
			if x.Tok == token.INC {
				term = fmt.Sprintf("(wadd %d %s %s)", t.bits, cn, one)
			} else {
				term = fmt.Sprintf("(wsub %d %s %s)", t.bits, cn, one)
			}
		} else {
			if x.Tok == token.INC {
				term = fmt.Sprintf("(Z.add %s %s)", cn, one)
			} else {
				term = fmt.Sprintf("(Z.sub %s %s)", cn, one)
			}
		}
		return fmt.Sprintf("let %s := %s in\n", cn, term) + next()
	case *ast.ExprStmt:
		if call, ok := x.X.(*ast.CallExpr); ok {
			if id, ok := call.Fun.(*ast.Ident); ok && id.Name == "panic" {
				return "Pnc"
			}
		}
		if call, ok := x.X.(*ast.CallExpr); ok {
			if sel, ok := call.Fun.(*ast.SelectorExpr); ok {
				if id, ok := sel.X.(*ast.Ident); ok && c.vt(id.Name).kind == "mat" {
					return c.matStmt(id.Name, sel.Sel.Name, call, next)
				}
			}
		}
		fail(s, c.fset, "unsupported expression statement")
	case *ast.ReturnStmt:
		ec := &ectx{}
		var vals []string
		if len(x.Results) == 0 {
			vals = c.rnames
			if len(c.cur.results) > 0 && len(vals) == 0 {
				fail(s, c.fset, "bare return without named results")
			}
		} else if len(x.Results) == 1 && len(c.cur.results) > 1 {
			call, ok := x.Results[0].(*ast.CallExpr)
			if !ok {
				fail(s, c.fset, "unsupported return")
			}
			vals, _ = c.call(call, ec)
		} else {
			for i, r := range x.Results {
				v, t := c.expr(r, c.cur.results[i], ec)
				if t.kind == "untyped" {
					cv, _ := evalConst(r, c.consts)
					v, t = lit(cv, c.cur.results[i]), c.cur.results[i]
				}
				if t != c.cur.results[i] {
					fail(r, c.fset, "result type mismatch")
				}
				vals = append(vals, v)
			}
		}
		return wrapBinds(ec, c.retTerm(vals))
	case *ast.BranchStmt:
		if x.Tok == token.BREAK && x.Label == nil {
			return "Brk " + c.tuple()
		}
		if x.Tok == token.CONTINUE && x.Label == nil {
			return "Cnt " + c.tuple()
		}
		fail(s, c.fset, "unsupported branch statement %s", x.Tok)
	case *ast.BlockStmt:
		return c.inScope(x.List, next)
	case *ast.IfStmt:
		if x.Init != nil {
			fail(s, c.fset, "if with an init statement")
		}
		ec := &ectx{}
		cond, tc := c.expr(x.Cond, tBool, ec)
		if tc.kind != "bool" {
			fail(s, c.fset, "non-boolean condition")
		}
		// variables declared inside the branches must be part of the tuple before we print it: translate first
		fall := func() string { return "Next " + c.tuple() }
		thenS := c.inScope(x.Body.List, fall)
		elseS := ""
		switch e := x.Else.(type) {
		case nil:
			elseS = fall()
		case *ast.BlockStmt:
			elseS = c.inScope(e.List, fall)
		case *ast.IfStmt:
			elseS = c.block([]ast.Stmt{e}, fall)
		}
		// re-translate so that every `Next (...)` mentions the final variable list
		thenS = c.inScope(x.Body.List, fall)
		switch e := x.Else.(type) {
		case nil:
			elseS = fall()
		case *ast.BlockStmt:
			elseS = c.inScope(e.List, fall)
		case *ast.IfStmt:
			elseS = c.block([]ast.Stmt{e}, fall)
		}
		n := next()
		return wrapBinds(ec, fmt.Sprintf("seq (if %s then (%s) else (%s)) (fun %s =>\n%s)", cond, thenS, elseS, c.pat(), n))
	case *ast.ForStmt:
		pre := ""
		var initS []ast.Stmt
		if x.Init != nil {
			initS = []ast.Stmt{x.Init}
		}
		// the for statement is a scope of its own (the variables of the init statement); its body is a nested one,
		// which the post statement is outside of
		outer := c.scope
		forScope := newScope(outer)
		c.scope = forScope
		fall := func() string { return "Next " + c.tuple() }
		fuel := fmt.Sprintf("(N.to_nat %d)", c.cur.t.fuel)
		if c.cur.t.fuelExpr != "" {
			fuel = c.cur.t.fuelExpr
		} else if c.cur.t.fuel == 0 {
			fail(s, c.fset, "loop in a function for which no fuel is configured")
		}
		body := func() string {
			ec := &ectx{}
			cond := "true"
			if x.Cond != nil {
				var tc typ
				cond, tc = c.expr(x.Cond, tBool, ec)
				if tc.kind != "bool" {
					fail(s, c.fset, "non-boolean loop condition")
				}
			}
			var b string
			if hasContinue(x.Body) {
				// `continue` jumps to the post statement: the body proper is run under catch_cnt, then the post statement
				inner := c.inScope(x.Body.List, fall)
				post := "Next " + c.tuple()
				if x.Post != nil {
					post = c.block([]ast.Stmt{x.Post}, fall)
				}
				inner = c.inScope(x.Body.List, fall)
				b = fmt.Sprintf("seq (catch_cnt (%s)) (fun %s =>\n%s)", inner, c.pat(), post)
			} else {
				b = c.inScope(x.Body.List, func() string {
					if x.Post != nil {
						return c.block([]ast.Stmt{x.Post}, fall)
					}
					return fall()
				})
			}
			return wrapBinds(ec, fmt.Sprintf("if %s then (%s) else Brk %s", cond, b, c.tuple()))
		}
		loopS := func() string {
			b := body()
			b = body() // second pass: all variables known
			c.scope = outer
			n := next()
			c.scope = forScope
			return fmt.Sprintf("seq (loop %s (fun %s =>\n%s) %s) (fun %s =>\n%s)", fuel, c.pat(), b, c.tuple(), c.pat(), n)
		}
		var r string
		if len(initS) > 0 {
			r = pre + c.block(initS, loopS)
		} else {
			r = loopS()
		}
		c.scope = outer
		return r
	}
	fail(s, c.fset, "unsupported statement %T", s)
	return ""
}

func (c *fn) assign(x *ast.AssignStmt, next func() string) string {
	ec := &ectx{}
	// multi-value from a call
	if len(x.Lhs) > 1 && len(x.Rhs) == 1 {
		call, ok := x.Rhs[0].(*ast.CallExpr)
		if !ok {
			fail(x, c.fset, "unsupported multi-assignment")
		}
		vals, ts := c.call(call, ec)
		if len(vals) != len(x.Lhs) {
			fail(x, c.fset, "assignment count mismatch")
		}
		out := ""
		for i, l := range x.Lhs {
			id, ok := l.(*ast.Ident)
			if !ok {
				fail(x, c.fset, "unsupported assignment target")
			}
			if id.Name == "_" {
				continue
			}
			if x.Tok == token.DEFINE {
				c.declare(id.Name, ts[i], x)
			}
			cn := c.resolve(id.Name)
			if cn == "" || c.vtypes[cn] != ts[i] {
				fail(x, c.fset, "type mismatch in assignment to %s", id.Name)
			}
			out += fmt.Sprintf("let %s := %s in\n", cn, vals[i])
		}
		return wrapBinds(ec, out+next())
	}
	// a[i] = v on a local slice / fixed-size array: Go evaluates the operands of the index and v, then indexes
	if ix, ok := x.Lhs[0].(*ast.IndexExpr); ok {
		if len(x.Lhs) != 1 || len(x.Rhs) != 1 || x.Tok != token.ASSIGN {
			fail(x, c.fset, "only the plain single assignment a[i] = v to an element is supported")
		}
		id, ok := ix.X.(*ast.Ident)
		if !ok || c.resolve(id.Name) == "" {
			fail(x, c.fset, "assignment to an element of something that is not a local variable")
		}
		cn := c.resolve(id.Name)
		lt := c.vtypes[cn]
		if (lt.kind != "list" && lt.kind != "arr") || lt.bits == 0 {
			fail(x, c.fset, "assignment to an element of %s, which is not a slice / array of unsigned integers", id.Name)
		}
		et := typ{kind: "u", bits: lt.bits}
		idx, late := c.index(ix.Index, ec)
		v, tv := c.expr(x.Rhs[0], et, ec)
		if tv.kind == "untyped" {
			cv, _ := evalConst(x.Rhs[0], c.consts)
			v, tv = lit(cv, et), et
		}
		if tv != et {
			fail(x, c.fset, "type mismatch in assignment to an element of %s (%s%d := %s%d)", id.Name, et.kind, et.bits, tv.kind, tv.bits)
		}
		ec.binds = append(ec.binds, late...)
		ec.binds = append(ec.binds, fmt.Sprintf("lset %s %s %s (fun %s =>\n", cn, idx, v, cn))
		return wrapBinds(ec, next())
	}
	if len(x.Lhs) != len(x.Rhs) {
		fail(x, c.fset, "assignment count mismatch")
	}
	// evaluate all right-hand sides first (Go semantics for tuple assignment)
	type asg struct {
		name, term string
		t          typ
		resolved   bool // name is already the Gallina name
	}
	var as []asg
	for i, l := range x.Lhs {
		id, ok := l.(*ast.Ident)
		if !ok {
			fail(x, c.fset, "unsupported assignment target (only local variables)")
		}
		// the type an untyped constant takes: that of the assigned variable; for `:=` only if it redeclares a
		// variable of this very scope (otherwise the variable is new and typed by the right-hand side alone)
		var want typ
		if x.Tok == token.DEFINE {
			if cn, ok := c.scope.names[id.Name]; ok {
				want = c.vtypes[cn]
			}
		} else if cn := c.resolve(id.Name); cn != "" {
			want = c.vtypes[cn]
		}
		var rhs ast.Expr = x.Rhs[i]
		opmap := map[token.Token]token.Token{token.ADD_ASSIGN: token.ADD, token.SUB_ASSIGN: token.SUB, token.MUL_ASSIGN: token.MUL,
			token.XOR_ASSIGN: token.XOR, token.AND_ASSIGN: token.AND, token.OR_ASSIGN: token.OR, token.SHL_ASSIGN: token.SHL,
			token.SHR_ASSIGN: token.SHR, token.QUO_ASSIGN: token.QUO, token.REM_ASSIGN: token.REM}
		if op, ok := opmap[x.Tok]; ok {
			if id.Name == "_" || c.resolve(id.Name) == "" {
				fail(x, c.fset, "%s of an unknown variable", x.Tok)
			}
			rhs = &ast.BinaryExpr{X: id, Op: op, Y: &ast.ParenExpr{X: x.Rhs[i]}, OpPos: x.TokPos}
		} else if x.Tok != token.ASSIGN && x.Tok != token.DEFINE {
			fail(x, c.fset, "unsupported assignment operator %s", x.Tok)
		}
		if call, ok := rhs.(*ast.CallExpr); ok {
			if fid, ok := call.Fun.(*ast.Ident); ok && fid.Name == "append" && len(call.Args) == 2 {
				if a0, ok := call.Args[0].(*ast.Ident); ok && a0.Name == id.Name && x.Tok == token.ASSIGN && c.vt(id.Name) == (typ{kind: "list", bits: 0}) {
					ev, et := c.expr(call.Args[1], typ{kind: "u", bits: 16}, ec)
					if et != (typ{kind: "u", bits: 16}) {
						fail(x, c.fset, "append of a non-T element")
					}
					cn := c.resolve(id.Name)
					as = append(as, asg{cn, fmt.Sprintf("(%s ++ [%s])", cn, ev), c.vtypes[cn], true})
					continue
				}
			}
		}
		term, t := c.expr(rhs, want, ec)
		if t.kind == "untyped" {
			v, _ := evalConst(rhs, c.consts)
			if want.kind == "" {
				want = tInt
			}
			term, t = lit(v, want), want
		}
		if id.Name == "_" {
			continue
		}
		if t.kind == "list" || t.kind == "struct" {
			// a slice shares its elements with its copies, which a list does not: only a fresh slice may be assigned
			r := rhs
			for {
				p, ok := r.(*ast.ParenExpr)
				if !ok {
					break
				}
				r = p.X
			}
			if _, fresh := r.(*ast.CallExpr); !fresh && t.kind == "list" {
				fail(x, c.fset, "assignment of a slice that is not freshly made (aliasing is not modelled)")
			}
			if _, isId := r.(*ast.Ident); isId && t.kind == "struct" {
				fail(x, c.fset, "copy of a struct pointer (aliasing is not modelled)")
			}
		}
		as = append(as, asg{id.Name, term, t, false})
	}
	// the variables come into scope only after every right-hand side is translated (x := x + 1 reads the outer x)
	for i := range as {
		goName, t := as[i].name, as[i].t
		if as[i].resolved {
			continue
		}
		if x.Tok == token.DEFINE {
			c.declare(goName, t, x)
		}
		cn := c.resolve(goName)
		if cn == "" {
			fail(x, c.fset, "assignment to undeclared %s", goName)
		} else if vt := c.vtypes[cn]; vt != t {
			fail(x, c.fset, "type mismatch in assignment to %s (%s%d := %s%d)", goName, vt.kind, vt.bits, t.kind, t.bits)
		}
		as[i].name = cn
	}
	out := ""
	if len(as) == 1 {
		out = fmt.Sprintf("let %s := %s in\n", as[0].name, as[0].term)
	} else {
		var ns, ts []string
		for _, a := range as {
			ns = append(ns, a.name)
			ts = append(ts, a.term)
		}
		out = fmt.Sprintf("let '(%s) := (%s) in\n", strings.Join(ns, ", "), strings.Join(ts, ", "))
	}
	return wrapBinds(ec, out+next())
}

func prodType(ts []typ) string {
	if len(ts) == 0 {
		return "unit"
	}
	var s []string
	for _, t := range ts {
		s = append(s, t.coq())
	}
	return "(" + strings.Join(s, " * ") + ")"
}

func main() {
	if len(os.Args) != 3 {
		fmt.Fprintln(os.Stderr, "usage: gotocoq <repo> <out.v>")
		os.Exit(64)
	}
	repo, outp := os.Args[1], os.Args[2]
	defer func() {
		if r := recover(); r != nil {
			if b, ok := r.(bad); ok {
				fmt.Fprintln(os.Stderr, "gotocoq: "+b.msg)
				os.Exit(2)
			}
			panic(r)
		}
	}()
	fset := token.NewFileSet()
	files := map[string]*ast.File{}
	parse := func(rel string) *ast.File {
		if f, ok := files[rel]; ok {
			return f
		}
		f, err := parser.ParseFile(fset, filepath.Join(repo, rel), nil, 0)
		if err != nil {
			panic(bad{err.Error()})
		}
		files[rel] = f
		return f
	}
	var out strings.Builder
	out.WriteString("(* GENERATED by tools/gotocoq from the Go sources - do not edit *)\n")
	out.WriteString("From Coq Require Import NArith ZArith Bool List.\nImport ListNotations.\nFrom Gopar Require Import Model.Base Model.GoSem Model.Matrix.\nFrom Gopar Require Import Model.GoSemList.\nOpen Scope N_scope.\n\n")
	// constants
	pkgConsts := map[string]map[string]int64{}
	for _, cf := range constFiles {
		f := parse(cf)
		m := map[string]int64{}
		names := collectConsts(f, m)
		pkgConsts[filepath.Dir(cf)] = m
		for _, n := range names {
			fmt.Fprintf(&out, "Definition const_%s_%s : Z := (%d)%%Z.\n", strings.ReplaceAll(filepath.Dir(cf), "/", "_"), n, m[n])
		}
	}
	for _, ba := range byteArrays {
		f := parse(ba.file)
		found := false
		for _, d := range f.Decls {
			g, ok := d.(*ast.GenDecl)
			if !ok || g.Tok != token.VAR {
				continue
			}
			for _, sp := range g.Specs {
				vs := sp.(*ast.ValueSpec)
				for i, n := range vs.Names {
					if n.Name != ba.name || i >= len(vs.Values) {
						continue
					}
					cl, ok := vs.Values[i].(*ast.CompositeLit)
					if !ok {
						panic(bad{ba.name + ": not a composite literal"})
					}
					var vals []string
					for _, e := range cl.Elts {
						bl, ok := e.(*ast.BasicLit)
						if !ok || (bl.Kind != token.CHAR && bl.Kind != token.INT) {
							panic(bad{ba.name + ": element that is not a character or integer constant"})
						}
						var v int64
						if bl.Kind == token.CHAR {
							r, _, _, err := strconv.UnquoteChar(bl.Value[1:len(bl.Value)-1], '\'')
							if err != nil {
								panic(bad{ba.name + ": " + err.Error()})
							}
							v = int64(r)
						} else {
							v, _ = strconv.ParseInt(bl.Value, 0, 64)
						}
						if v < 0 || v > 255 {
							panic(bad{ba.name + ": element out of byte range"})
						}
						vals = append(vals, strconv.FormatInt(v, 10))
					}
					if len(vals) > ba.n {
						panic(bad{ba.name + ": more elements than the array length"})
					}
					for len(vals) < ba.n {
						vals = append(vals, "0") // Go zero-fills the rest of the array
					}
					fmt.Fprintf(&out, "Definition bytes_%s_%s : list N := [%s].\n", strings.ReplaceAll(filepath.Dir(ba.file), "/", "_"), ba.name, strings.Join(vals, "; "))
					found = true
				}
			}
		}
		if !found {
			panic(bad{"variable " + ba.name + " not found in " + ba.file})
		}
	}
	out.WriteString("\n")
	// the fields of the whitelisted struct types, from their declarations
	var snames []string
	for n := range structFiles {
		snames = append(snames, n)
	}
	sort.Strings(snames)
	for _, n := range snames {
		loadStruct(n, parse(structFiles[n]), fset)
	}
	// signatures first (so that calls can be typed), in target order
	sigs := map[string]*sig{}
	decls := map[string]*ast.FuncDecl{}
	recvNames := map[string]string{}
	sigErr := map[string]string{}
	for _, t := range targets {
		f := parse(t.file)
		var fd *ast.FuncDecl
		for _, d := range f.Decls {
			if x, ok := d.(*ast.FuncDecl); ok && x.Name.Name == t.name {
				r := ""
				if x.Recv != nil && len(x.Recv.List) == 1 {
					r = exprKey(stripStar(x.Recv.List[0].Type))
				}
				if r == t.recv {
					fd = x
				}
			}
		}
		if fd == nil {
			panic(bad{fmt.Sprintf("function %s.%s not found in %s", t.recv, t.name, t.file)})
		}
		key := t.recv + "." + t.name
		decls[key] = fd
		c := &fn{fset: fset}
		s := &sig{t: t}
		if fd.Recv != nil {
			rt, isNamed := named[t.recv]
			if len(fd.Recv.List[0].Names) == 1 {
				recvNames[key] = fd.Recv.List[0].Names[0].Name
			}
			if isNamed {
				s.params = append(s.params, recvNames[key])
				s.ptypes = append(s.ptypes, rt)
			}
		}
		func() {
			// a signature outside the subset makes this one target untranslated (reported by translateOne)
			defer func() {
				if r := recover(); r != nil {
					b, ok := r.(bad)
					if !ok {
						panic(r)
					}
					sigErr[key] = b.msg
				}
			}()
			for _, p := range fd.Type.Params.List {
				pt := c.typeOf(p.Type)
				if pt.kind == "list" || pt.kind == "struct" {
					fail(p.Type, fset, "slice or struct parameter (sharing with the caller is not modelled)")
				}
				for _, n := range p.Names {
					s.params = append(s.params, n.Name)
					s.ptypes = append(s.ptypes, pt)
				}
			}
			if fd.Type.Results != nil {
				for _, r := range fd.Type.Results.List {
					rt := c.typeOf(r.Type)
					k := len(r.Names)
					if k == 0 {
						k = 1
					}
					for i := 0; i < k; i++ {
						s.results = append(s.results, rt)
					}
				}
			}
			sigs[key] = s
		}()
	}
	for _, t := range targets {
		translateOne(t, decls, sigs, sigErr, pkgConsts, parse, fset, &out)
	}
	if err := os.WriteFile(outp, []byte(out.String()), 0o644); err != nil {
		panic(err)
	}
}

// translateOne emits the definition of one target; a function outside the subset is reported in a comment and
// skipped, so that only the link files that need it stop compiling
func translateOne(t target, decls map[string]*ast.FuncDecl, sigs map[string]*sig, sigErr map[string]string, pkgConsts map[string]map[string]int64,
	parse func(string) *ast.File, fset *token.FileSet, out *strings.Builder) {
	defer func() {
		if r := recover(); r != nil {
			if b, ok := r.(bad); ok {
				fmt.Fprintf(out, "(* NOT TRANSLATED: %s: %s *)\n\n", t.coq, strings.ReplaceAll(b.msg, "*)", "* )"))
				fmt.Fprintln(os.Stderr, "gotocoq: "+t.coq+" skipped: "+b.msg)
				delete(sigs, t.recv+"."+t.name)
				return
			}
			panic(r)
		}
	}()
	{
		key := t.recv + "." + t.name
		if msg, ok := sigErr[key]; ok {
			panic(bad{msg})
		}
		fd, s := decls[key], sigs[key]
		consts := map[string]int64{}
		for k, v := range pkgConsts[filepath.Dir(t.file)] {
			consts[k] = v
		}
		collectConsts(parse(t.file), consts)
		c := &fn{fset: fset, consts: consts, sigs: sigs, cur: s, vtypes: map[string]typ{}, used: map[string]bool{}, usedExt: map[string]bool{},
			imports: map[string]string{}}
		for _, im := range parse(t.file).Imports {
			path, err := strconv.Unquote(im.Path.Value)
			if err != nil {
				continue
			}
			local := path[strings.LastIndex(path, "/")+1:]
			if im.Name != nil {
				local = im.Name.Name
			}
			c.imports[local] = path
		}
		// the function's own scope: named results, the package-level in/out slices, the parameters
		fscope := newScope(nil)
		c.scope = fscope
		for i, p := range s.params {
			c.vtypes[p] = s.ptypes[i]
		}
		paramSet := map[string]bool{}
		for _, p := range s.params {
			paramSet[p] = true
		}
		// named results are locals initialised to zero
		pre := ""
		if fd.Type.Results != nil {
			i := 0
			for _, r := range fd.Type.Results.List {
				for _, n := range r.Names {
					c.declare(n.Name, s.results[i], fd)
					c.rnames = append(c.rnames, n.Name)
					pre += fmt.Sprintf("let %s := %s in\n", n.Name, lit(0, s.results[i]))
					i++
				}
			}
		}
		for _, v := range t.inout {
			if globalLists[v] {
				c.declare(v, typ{kind: "list", bits: 0}, fd)
				pre += fmt.Sprintf("let %s := (@nil N) in\n", v)
			}
		}
		// parameters are assignable locals too
		for i, p := range s.params {
			_ = i
			c.vars = append(c.vars, p)
			fscope.names[p] = p
		}
		enter := func() { // every pass starts from a fresh copy of the function's scope
			c.scope = newScope(nil)
			for k, v := range fscope.names {
				c.scope.names[k] = v
			}
		}
		end := func() string {
			if len(s.results) == 0 {
				return c.retTerm(nil)
			}
			if len(c.rnames) > 0 {
				return c.retTerm(c.rnames)
			}
			return "Pnc"
		}
		enter()
		c.block(fd.Body.List, end) // first pass: discover locals and arrays
		c.tmp = 0
		enter()
		body := c.block(fd.Body.List, end)
		// locals that are neither parameters nor named results must exist from the start (tuple shape is fixed)
		for _, v := range c.vars {
			if !paramSet[v] {
				isR := false
				for _, r := range c.rnames {
					if r == v {
						isR = true
					}
				}
				for _, r := range t.inout {
					if r == v {
						isR = true // initialised above
					}
				}
				if !isR {
					pre += fmt.Sprintf("let %s := %s in\n", v, zeroOf(c.vtypes[v]))
				}
			}
		}
		var arrs []string
		for a := range c.used {
			arrs = append(arrs, a)
		}
		sort.Strings(arrs)
		s.arrays = arrs
		var ps []string
		if t.usesMul {
			ps = append(ps, "(mul : N -> N -> N)")
		}
		for _, a := range arrs {
			ps = append(ps, fmt.Sprintf("(%s : N -> N)", a))
		}
		var exts []string
		for e := range c.usedExt {
			exts = append(exts, e)
		}
		sort.Slice(exts, func(i, j int) bool { return externs[exts[i]].coq < externs[exts[j]].coq })
		s.externs = exts
		for _, e := range exts {
			ps = append(ps, fmt.Sprintf("(%s : %s)", externs[e].coq, externs[e].coqType))
		}
		for i, p := range s.params {
			ps = append(ps, fmt.Sprintf("(%s : %s)", p, s.ptypes[i].coq()))
		}
		var vts []typ
		for _, v := range c.vars {
			vts = append(vts, c.vtypes[v])
		}
		fmt.Fprintf(out, "(* %s: func %s%s *)\nDefinition %s %s : ctl %s %s :=\n%s%s.\n\n", t.file, map[bool]string{true: "(" + t.recv + ") ", false: ""}[t.recv != ""], t.name,
			t.coq, strings.Join(ps, " "), prodType(vts), prodType(resWithInout(s.results, t.inout, c.vtypes)), pre, body)
	}
}

// loadStruct reads the fields of the struct type name from its declaration in f; a declaration outside the subset
// leaves the type unknown (the targets that use it are then not translated)
func loadStruct(name string, f *ast.File, fset *token.FileSet) {
	defer func() {
		if r := recover(); r != nil {
			if b, ok := r.(bad); ok {
				fmt.Fprintln(os.Stderr, "gotocoq: struct "+name+" not usable: "+b.msg)
				delete(structFields, name)
				return
			}
			panic(r)
		}
	}()
	c := &fn{fset: fset}
	for _, d := range f.Decls {
		g, ok := d.(*ast.GenDecl)
		if !ok || g.Tok != token.TYPE {
			continue
		}
		for _, sp := range g.Specs {
			ts := sp.(*ast.TypeSpec)
			st, ok := ts.Type.(*ast.StructType)
			if !ok || ts.Name.Name != name {
				continue
			}
			var fs []field
			for _, fl := range st.Fields.List {
				if len(fl.Names) == 0 {
					fail(fl, fset, "embedded field")
				}
				ft := c.typeOf(fl.Type)
				if ft.kind != "u" && ft.kind != "s" && ft.kind != "bool" && ft.kind != "arr" {
					fail(fl, fset, "field of kind %s (only integers, booleans and arrays of unsigned integers)", ft.kind)
				}
				for _, n := range fl.Names {
					fs = append(fs, field{n.Name, ft})
				}
			}
			if len(fs) == 0 {
				fail(ts, fset, "struct without fields")
			}
			structFields[name] = fs
		}
	}
}

func stripStar(e ast.Expr) ast.Expr {
	if s, ok := e.(*ast.StarExpr); ok {
		return s.X
	}
	return e
}

// matIndex translates a row (or column) index of matrix m to a nat term, with the range check of the Go code
func (c *fn) matIndex(m string, e ast.Expr, row bool, ec *ectx) string {
	t, tt := c.expr(e, tInt, ec)
	if tt.kind == "untyped" {
		v, _ := evalConst(e, c.consts)
		t, tt = lit(v, tInt), tInt
	}
	if tt.kind != "s" {
		fail(e, c.fset, "matrix index that is not an int")
	}
	bound := fmt.Sprintf("(Z.of_nat (length %s))", m)
	if !row {
		bound = fmt.Sprintf("(Z.of_nat (length (List.hd nil %s)))", m) // m.columns: all rows have this length
	}
	ec.binds = append(ec.binds, fmt.Sprintf("guard (orb (Z.ltb %s (0)%%Z) (Z.leb %s %s)) (", t, bound, t))
	return fmt.Sprintf("(Z.to_nat %s)", t)
}

// matStmt translates the three mutating row operations of gf2p16/matrix.go; their bodies (element loops through the
// bulk kernels) are not re-read: they are Model/Matrix.v's swap_rows / scale_row / add_scaled_row over `mul`
func (c *fn) matStmt(m, method string, call *ast.CallExpr, next func() string) string {
	ec := &ectx{}
	var term string
	switch method {
	case "swapRows":
		if len(call.Args) != 2 {
			fail(call, c.fset, "swapRows arity")
		}
		i := c.matIndex(m, call.Args[0], true, ec)
		j := c.matIndex(m, call.Args[1], true, ec)
		term = fmt.Sprintf("(Matrix.swap_rows %s %s %s)", i, j, m)
	case "scaleRow":
		if len(call.Args) != 2 {
			fail(call, c.fset, "scaleRow arity")
		}
		i := c.matIndex(m, call.Args[0], true, ec)
		cv, ct := c.expr(call.Args[1], typ{kind: "u", bits: 16}, ec)
		if ct != (typ{kind: "u", bits: 16}) {
			fail(call, c.fset, "scaleRow factor type")
		}
		term = fmt.Sprintf("(Matrix.scale_row mul %s %s %s)", i, cv, m)
	case "addScaledRow":
		if len(call.Args) != 3 {
			fail(call, c.fset, "addScaledRow arity")
		}
		d := c.matIndex(m, call.Args[0], true, ec)
		sr := c.matIndex(m, call.Args[1], true, ec)
		cv, ct := c.expr(call.Args[2], typ{kind: "u", bits: 16}, ec)
		if ct != (typ{kind: "u", bits: 16}) {
			fail(call, c.fset, "addScaledRow factor type")
		}
		term = fmt.Sprintf("(Matrix.add_scaled_row mul %s %s %s %s)", d, sr, cv, m)
	default:
		fail(call, c.fset, "unsupported matrix method %s", method)
	}
	return wrapBinds(ec, fmt.Sprintf("let %s := %s in\n", m, term)+next())
}

func resWithInout(res []typ, inout []string, vt map[string]typ) []typ {
	out := append([]typ{}, res...)
	for _, v := range inout {
		out = append(out, vt[v])
	}
	return out
}

func hasContinue(b *ast.BlockStmt) bool {
	found := false
	ast.Inspect(b, func(n ast.Node) bool {
		switch x := n.(type) {
		case *ast.ForStmt, *ast.RangeStmt:
			return false // a continue in a nested loop belongs to that loop
		case *ast.BranchStmt:
			if x.Tok == token.CONTINUE {
				found = true
			}
		}
		return true
	})
	return found
}
