module gotocoq

go 1.15
