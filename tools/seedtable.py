#!/usr/bin/env python3
"""Print the markdown table of seeded changes and which checks caught them (from seeded/*/meta.json)."""
import json, os
V = os.path.dirname(os.path.dirname(os.path.abspath(__file__)))
rows = []
for d in sorted(os.listdir(V + "/seeded")):
    mp = "%s/seeded/%s/meta.json" % (V, d)
    if not os.path.exists(mp):
        continue
    m = json.load(open(mp))
    det = m.get("detected_by") or {}
    caught = [c for c, r in det.items() if r.get("exit") == 1]
    missed = [c for c, r in det.items() if r.get("exit") == 0]
    what = (m.get("summary") or "")[:150].replace("|", "/").replace("\n", " ")
    needs = (m.get("needs") or "")[:120].replace("|", "/").replace("\n", " ")
    first = ""
    for c in caught[:1]:
        first = (det[c].get("first_line") or "")[2:110].replace("|", "/")
    rows.append("| %s | %s | %s | %s | %s | %s |" % (d, m.get("property", ""), what, needs, ", ".join(caught) or "-", ", ".join(missed) or "-"))
print("| change | property | what was changed | needs | caught by | not caught by |")
print("|---|---|---|---|---|---|")
print("\n".join(rows))
