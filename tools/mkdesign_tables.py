#!/usr/bin/env python3
"""Refresh the generated tables inside DESIGN.md (between the SEEDTABLE markers)."""
import os, re, subprocess
V = os.path.dirname(os.path.dirname(os.path.abspath(__file__)))
t = subprocess.run(["python3", V + "/tools/seedtable.py"], capture_output=True, text=True).stdout
p = V + "/DESIGN.md"
s = open(p).read()
s = re.sub(r"<!-- SEEDTABLE BEGIN -->.*?<!-- SEEDTABLE END -->", lambda m: "<!-- SEEDTABLE BEGIN -->\n" + t + "<!-- SEEDTABLE END -->", s, flags=re.S)
open(p, "w").write(s)
