#!/usr/bin/env python3
"""Run each seeded mutation against the check of its property (and extra checks given in EXTRA); record in meta.json."""
import json, os, subprocess, sys, concurrent.futures
V = os.path.dirname(os.path.dirname(os.path.abspath(__file__)))
EXTRA = {"C01-e": ["C02", "C14"], "C03-e": ["C01"], "C13-e": ["C03", "C01"], "C17-e": ["C01", "C02"], "C05-e": ["C09"], "C04-e": ["C10"], "C10-e": ["C04"],
         "C01-d": ["C11", "C07"], "C05-d": ["C08", "C09"], "C10-d": ["C04"], "C15-d": ["C19"], "C11-d": ["C09", "C01"], "C12-d": ["C17"], "C07-d": ["C01"],
         "C02-d": ["C01", "C14"], "C14-d": ["C01", "C02"], "C06-d": ["C03"], "C13-d": ["C19"], "C19-d": ["C13", "C04"], "C03-d": ["C06"], "C04-d": ["C10"], "C17-d": ["C05"],
         "C02-c": ["C18"], "C17-c": ["C12"], "C14-c": ["C03"], "C19-c": ["C04"], "C02-b": ["C18"], "C18-a": ["C18"], "C14-a": ["C04"], "C14-b": ["C03", "C14"], "C17-a": ["C05"], "C12-a": ["C12"], "C01-b": ["C02"],
         "revert-0f7ea01": ["C12"], "revert-ac861da": ["C02"], "revert-9ad5fb6": ["C02"], "revert-bdfe387": ["C10"], "revert-121c75a": ["C04"], "revert-016a441": ["C02", "C01"], "revert-2ae8c54": ["C04", "C13"], "revert-e41da29": ["C19"], "revert-a78614b": ["C01", "C03"], "revert-fd379c2": ["C01", "C03"], "revert-10164bf": ["C09"], "revert-80819e0": ["C13"], "revert-8416c89": ["C13"], "revert-2e02a4b": ["C19"], "revert-97e517b": ["C19"],
         "revert-8d7f5ba": ["C19"], "revert-5859cef": ["C01", "C20"], "revert-d9cccf5": ["C03", "C20"], "revert-d624b73": ["C06"],
         "revert-95688b3": ["C19"], "revert-7398e39": ["C10"], "revert-697ea65": ["C04", "C19"], "revert-cc8e982": ["C19"]}
EXTRA.update({"C01-f": ["C03"], "C01-g": ["C06", "C03"], "C05-f": ["C03"], "C05-g": ["C12", "C01"], "C09-f": [], "C14-f": ["C01", "C02"], "C14-g": ["C03", "C16"],
  "C03-g": ["C06"], "C07-f": ["C12"], "C11-g": ["C07"], "C15-f": ["C19"], "C15-g": ["C19"], "C20-f": ["C04"], "C20-g": ["C17"], "C04-f": ["C10"], "C04-g": ["C10", "C19"],
  "C08-f": ["C09"], "C12-f": ["C07"], "C12-g": ["C09"], "C16-f": ["C03", "C01"], "C16-g": ["C03"]})
EXTRA.update({"C02-l": ["C17"], "C01-j": ["C03"], "C02-k": ["C15"], "C17-k": ["C12"], "C20-k": ["C04"], "C12-j": ["C05"]})
only = sys.argv[1:]
jobs = []
for d in sorted(os.listdir(V + "/seeded")):
    if only and d not in only:
        continue
    meta = json.load(open("%s/seeded/%s/meta.json" % (V, d)))
    checks = []
    if d[:3].startswith("C") and d[1:3].isdigit():
        checks.append(d[:3])
    for c in EXTRA.get(d, []):
        if c not in checks:
            checks.append(c)
    for c in checks:
        jobs.append((d, c))

def one(job):
    d, c = job
    p = subprocess.run(["python3", V + "/tools/seedcheck.py", "detect", V + "/seeded/" + d, c], capture_output=True, text=True, timeout=7200)
    # seedcheck uses the seed name for its worktree: serialise per seed by giving each job its own copy name
    try:
        r = json.loads(p.stdout.strip().split("\n")[-1])
    except Exception:
        return d, c, {"exit": None, "lines": [p.stdout[-300:] + p.stderr[-300:]]}
    return d, c, r.get("checks", {}).get(c, {"exit": None, "lines": [r.get("error", "")]})

# jobs of the same seed must not overlap (same scratch worktree name): group by seed
from collections import defaultdict
by = defaultdict(list)
for j in jobs:
    by[j[0]].append(j)
def run_seed(items):
    return [one(j) for j in items]
with concurrent.futures.ThreadPoolExecutor(6) as ex:
    for res in ex.map(run_seed, by.values()):
        for d, c, r in res:
            mp = "%s/seeded/%s/meta.json" % (V, d)
            meta = json.load(open(mp))
            meta.setdefault("detected_by", {})[c] = {"exit": r.get("exit"), "first_line": (r.get("lines") or [""])[0][:300]}
            json.dump(meta, open(mp, "w"), indent=1)
            print(d, c, "exit", r.get("exit"), (r.get("lines") or [""])[0][:140])
            sys.stdout.flush()
