#!/usr/bin/env python3
"""Translator: gf2p16/slice_amd64.s (Go assembler syntax) -> Gallina instruction lists for Model/Ssse3.v.

Usage: asm2coq.py <slice_amd64.s> <out.v>

The SSSE3 routines of the file are re-read from the source on every run of the C09 check, their macros are
expanded, and every instruction is mapped to the constructor of `instr` (Model/Ssse3.v) with the same
operands.  The output defines one `list instr` per routine (for the two slice loops: the part before the label
`loop:` and the loop body up to the closing `JNZ loop`).  coq/GenLink/Ssse3GenLink.v then proves, by
computation, that these lists ARE the programs the theorems of Proofs/Ssse3Facts.v are about, and restates
the theorems for the generated programs - so the theorems are re-checked against what the assembly says now.

The translator refuses (exit 2) anything it does not understand in a target routine: an unknown mnemonic, a
register other than AX/BX/CX/X0-X15, another addressing mode, a different loop shape.  Such a refusal is a
broken tie, reported by the check.  Trusted: this file (operand-order mapping and macro expansion).
"""
import re
import sys

TARGETS = ["standardToAltMapSSSE3Unsafe", "altToStandardMapSSSE3Unsafe", "mulAltMapSSSE3Unsafe",
           "mulSSSE3Unsafe", "mulAndAddSSSE3Unsafe", "mulSliceSSSE3Unsafe", "mulAndAddSliceSSSE3Unsafe"]
LOOPS = {"mulSliceSSSE3Unsafe", "mulAndAddSliceSSSE3Unsafe"}
GREGS = {"AX", "BX", "CX"}


class Bad(Exception):
    pass


def strip_comment(line):
    k = line.find("//")
    return line if k < 0 else line[:k]


def parse(src):
    """returns (macros: name -> (params, [lines]), funcs: name -> [lines])"""
    raw = [strip_comment(l).rstrip() for l in src.split("\n")]
    macros, funcs = {}, {}
    i = 0
    cur = None
    while i < len(raw):
        l = raw[i]
        m = re.match(r"#define\s+(\w+)\(([^)]*)\)\s*(.*)$", l)
        if m:
            name, params, rest = m.group(1), [p.strip() for p in m.group(2).split(",")], m.group(3)
            body = []
            cont = rest.endswith("\\")
            first = rest[:-1].strip() if cont else rest.strip()
            if first:
                body.append(first)
            while cont:
                i += 1
                l2 = raw[i]
                cont = l2.endswith("\\")
                t = (l2[:-1] if cont else l2).strip()
                if t:
                    body.append(t)
            macros[name] = (params, body)
            cur = None
        else:
            m = re.match(r"TEXT\s+·(\w+)\(SB\)", l)
            if m:
                cur = m.group(1)
                funcs[cur] = []
            elif l.strip().startswith("#"):
                pass
            elif cur is not None and l.strip():
                funcs[cur].append(l.strip())
        i += 1
    return macros, funcs


def split_args(s):
    return [a.strip() for a in s.split(",")] if s.strip() else []


def expand(lines, macros, depth=0):
    if depth > 8:
        raise Bad("macro expansion too deep")
    out = []
    for l in lines:
        m = re.match(r"(\w+)\((.*)\)$", l)
        if m and m.group(1) in macros:
            params, body = macros[m.group(1)]
            args = split_args(m.group(2))
            if len(args) != len(params):
                raise Bad("macro %s: %d arguments for %d parameters" % (m.group(1), len(args), len(params)))
            sub = []
            for b in body:
                # simultaneous substitution of whole identifiers
                def rep(mo):
                    w = mo.group(0)
                    return args[params.index(w)] if w in params else w
                sub.append(re.sub(r"[A-Za-z_]\w*", rep, b))
            out += expand(sub, macros, depth + 1)
        else:
            out.append(l)
    return out


def num(s):
    s = s.strip()
    if not s.startswith("$"):
        raise Bad("immediate expected: " + s)
    return int(s[1:], 0)


def xreg(s):
    m = re.match(r"X(\d+)$", s.strip())
    if not m or int(m.group(1)) > 15:
        raise Bad("X register expected: " + s)
    return "X%d" % int(m.group(1))


def greg(s):
    s = s.strip()
    if s not in GREGS:
        raise Bad("general register other than AX/BX/CX: " + s)
    return s


def mem(s):
    """off(REG) -> (off, reg)"""
    m = re.match(r"(\d*)\((\w+)\)$", s.strip())
    if not m:
        raise Bad("memory operand expected: " + s)
    return int(m.group(1) or "0"), greg(m.group(2))


def instr(l):
    m = re.match(r"(\w+)\s+(.*)$", l)
    if not m:
        raise Bad("cannot parse: " + l)
    op, args = m.group(1), split_args(m.group(2))
    if op == "MOVQ" and len(args) == 2:
        a, b = args
        fp = re.match(r"\w+\+(\d+)\(FP\)$", a)
        if fp:
            return "MOVQ_fp %d %s" % (int(fp.group(1)), greg(b))
        if a.startswith("$"):
            return "MOVQ_imm %d %s" % (num(a), greg(b))
        if a in GREGS and b.startswith("X"):
            return "MOVQ_gx %s %s" % (greg(a), xreg(b))
        raise Bad("unsupported MOVQ form: " + l)
    if op in ("SHRQ", "ADDQ", "SUBQ") and len(args) == 2:
        return "%s %d %s" % (op, num(args[0]), greg(args[1]))
    if op == "MOVOU" and len(args) == 2:
        a, b = args
        if "(" in a and "(" not in b:
            off, g = mem(a)
            return "MOVOU_ld %d %s %s" % (off, g, xreg(b))
        if "(" in b and "(" not in a:
            off, g = mem(b)
            return "MOVOU_st %s %d %s" % (xreg(a), off, g)
        raise Bad("unsupported MOVOU form: " + l)
    if op in ("MOVO", "PXOR", "PAND", "PSHUFB", "PACKUSWB", "PUNPCKLBW", "PUNPCKHBW") and len(args) == 2:
        return "%s %s %s" % (op, xreg(args[0]), xreg(args[1]))
    if op == "PSRLW" and len(args) == 2:
        return "PSRLW %d %s" % (num(args[0]), xreg(args[1]))
    raise Bad("unsupported instruction: " + l)


# ---------- the scalar kernels (Model/ScalarAsm.v) ----------
SCALAR_TARGETS = ["mulByteSliceLEUnsafe", "mulAndAddByteSliceLEUnsafe"]
SREGS = {"AX": "SAX", "BX": "SBX", "CX": "SCX", "SI": "SSI", "R8": "SR8", "R9": "SR9", "R10": "SR10", "R11": "SR11"}


def sreg(s):
    s = s.strip()
    if s not in SREGS:
        raise Bad("register not modelled for the scalar kernels: " + s)
    return SREGS[s]


def smem(s):
    """disp(BASE)(IDX*2) -> (disp, base, idx)"""
    m = re.match(r"(\d*)\((\w+)\)\((\w+)\*2\)$", s.strip())
    if not m:
        raise Bad("scaled-index memory operand expected: " + s)
    return int(m.group(1) or "0"), sreg(m.group(2)), sreg(m.group(3))


def sinstr(l):
    m = re.match(r"(\w+)\s+(.*)$", l)
    if not m:
        raise Bad("cannot parse: " + l)
    op, args = m.group(1), split_args(m.group(2))
    if op == "MOVQ" and len(args) == 2:
        a, b = args
        fp = re.match(r"\w+\+(\d+)\(FP\)$", a)
        if fp:
            return "SMOVQ_fp %d %s" % (int(fp.group(1)), sreg(b))
        if a.startswith("$"):
            return "SMOVQ_imm %d %s" % (num(a), sreg(b))
        raise Bad("unsupported MOVQ form: " + l)
    if op == "SHRQ" and len(args) == 2:
        return "SSHRQ %d %s" % (num(args[0]), sreg(args[1]))
    if op == "SHRW" and len(args) == 2:
        return "SSHRW %d %s" % (num(args[0]), sreg(args[1]))
    if op == "MOVWLZX" and len(args) == 2:
        d, b_, i = smem(args[0])
        return "SMOVWLZX %d %s %s %s" % (d, b_, i, sreg(args[1]))
    if op == "MOVBLZX" and len(args) == 2:
        a = args[0].strip()
        if not a.endswith("B") or a[:-1] not in SREGS:
            raise Bad("byte register expected: " + a)
        return "SMOVBLZX %s %s" % (sreg(a[:-1]), sreg(args[1]))
    if op == "XORL" and len(args) == 2:
        return "SXORL %s %s" % (sreg(args[0]), sreg(args[1]))
    if op == "MOVW" and len(args) == 2:
        d, b_, i = smem(args[1])
        return "SMOVW_st %s %d %s %s" % (sreg(args[0]), d, b_, i)
    if op == "INCQ" and len(args) == 1:
        return "SINCQ %s" % sreg(args[0])
    raise Bad("unsupported instruction in a scalar kernel: " + l)


def translate_scalar(src):
    macros, funcs = parse(src)
    out = ["(* GENERATED by tools/asm2coq.py from gf2p16/slice_amd64.s (scalar kernels) - do not edit *)",
           "From Coq Require Import List NArith. Import ListNotations.",
           "From Gopar Require Import Model.Base Model.ScalarAsm.", "Open Scope N_scope.", ""]
    for f in SCALAR_TARGETS:
        if f not in funcs:
            raise Bad("routine %s not found in the assembly file" % f)
        lines = expand(funcs[f], macros)
        if len(lines) < 4 or lines[-1] != "RET":
            raise Bad("%s does not end in RET" % f)
        # ... loop: body ; CMPQ R8, CX ; JLT $0, loop ; RET
        if lines.count("loop:") != 1 or [x.strip() for x in lines[-2].split(None, 1)[0:1]] != ["JLT"] or lines[-2].split(None, 1)[1].replace(" ", "") != "$0,loop":
            raise Bad("%s: expected  loop: ... CMPQ R8, CX ; JLT $0, loop ; RET" % f)
        cm = lines[-3].split(None, 1)
        if cm[0] != "CMPQ" or [a.strip() for a in cm[1].split(",")] != ["R8", "CX"]:
            raise Bad("%s: the loop must close with CMPQ R8, CX (signed compare of the index with the count)" % f)
        k = lines.index("loop:")
        pre, body = lines[:k], lines[k + 1:-3]
        if any(x.endswith(":") or x.startswith("J") or x.startswith("CMP") for x in pre + body):
            raise Bad("%s: unexpected label, jump or compare" % f)
        out.append(emit_slist("gen_%s_pre" % f, [sinstr(x) for x in pre]))
        out.append(emit_slist("gen_%s_body" % f, [sinstr(x) for x in body]))
    return "\n".join(out)


def emit_slist(name, items):
    body = ";\n    ".join(items)
    return "Definition %s : list sinstr :=\n  [ %s ].\n" % (name, body)


def emit_list(name, items):
    body = ";\n    ".join(items)
    return "Definition %s : list instr :=\n  [ %s ].\n" % (name, body)


def translate(src):
    macros, funcs = parse(src)
    out = ["(* GENERATED by tools/asm2coq.py from gf2p16/slice_amd64.s - do not edit *)",
           "From Coq Require Import List NArith. Import ListNotations.",
           "From Gopar Require Import Model.Base Model.Ssse3.", "Open Scope N_scope.", ""]
    for f in TARGETS:
        if f not in funcs:
            raise Bad("routine %s not found in the assembly file" % f)
        lines = expand(funcs[f], macros)
        if not lines or lines[-1] != "RET":
            raise Bad("%s does not end in RET" % f)
        lines = lines[:-1]
        if f in LOOPS:
            if lines.count("loop:") != 1 or lines[-1].split() != ["JNZ", "loop"]:
                raise Bad("%s: expected exactly  loop: ... JNZ loop ; RET" % f)
            k = lines.index("loop:")
            pre, body = lines[:k], lines[k + 1:-1]
            if any(":" in x or x.startswith("J") for x in pre + body):
                raise Bad("%s: unexpected label or jump" % f)
            if not body or body[-1].split()[0] != "SUBQ":
                raise Bad("%s: the loop body must end in the SUBQ that sets the flags for JNZ" % f)
            out.append(emit_list("gen_%s_pre" % f, [instr(x) for x in pre]))
            out.append(emit_list("gen_%s_body" % f, [instr(x) for x in body]))
        else:
            if any(x.endswith(":") or x.startswith("J") for x in lines):
                raise Bad("%s: unexpected label or jump" % f)
            out.append(emit_list("gen_%s" % f, [instr(x) for x in lines]))
    return "\n".join(out)


def main():
    src = open(sys.argv[1]).read()
    try:
        v = translate_scalar(src) if len(sys.argv) > 3 and sys.argv[3] == "scalar" else translate(src)
    except Bad as e:
        sys.stderr.write("asm2coq: %s\n" % e)
        sys.exit(2)
    open(sys.argv[2], "w").write(v)


if __name__ == "__main__":
    main()
