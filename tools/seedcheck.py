#!/usr/bin/env python3
"""Validate seeded mutations and run checks against them.

  seedcheck.py validate <seeddir>...     apply in a scratch worktree of /repo, build, run the existing suite
                                         (must pass), run the demo (must fail), unapply, run the demo (must pass)
  seedcheck.py detect <seeddir> <Cxx>... run the given checks (quick tier) against a scratch worktree with the
                                         patch applied (VERIF_REPO), report exit codes
Scratch worktrees live under /tmp and are removed afterwards.  Nothing is ever committed to /repo.
"""
import json
import os
import shutil
import subprocess
import sys
import time

ENV = dict(os.environ, GOFLAGS="-mod=mod", GOPROXY="off", GOSUMDB="off", GOTOOLCHAIN="local")
VERIF = os.path.dirname(os.path.dirname(os.path.abspath(__file__)))


def sh(cmd, cwd=None, timeout=1800, env=None):
    p = subprocess.run(cmd, cwd=cwd, env=env or ENV, stdout=subprocess.PIPE, stderr=subprocess.STDOUT, text=True, timeout=timeout)
    return p.returncode, p.stdout


def worktree(name):
    wt = "/tmp/mut-" + name
    sh(["git", "-C", "/repo", "worktree", "remove", "--force", wt])
    shutil.rmtree(wt, ignore_errors=True)
    rc, out = sh(["git", "-C", "/repo", "worktree", "add", "--detach", wt, "HEAD"])
    if rc:
        raise SystemExit(out)
    return wt


def drop(wt):
    sh(["git", "-C", "/repo", "worktree", "remove", "--force", wt])
    shutil.rmtree(wt, ignore_errors=True)
    sh(["git", "-C", "/repo", "worktree", "prune"])


def apply_patch(wt, patch):
    rc, out = sh(["git", "apply", "--whitespace=nowarn", patch], cwd=wt)
    if rc:
        rc, out = sh(["git", "apply", "--3way", "--whitespace=nowarn", patch], cwd=wt)
    return rc, out


def validate(seeddir):
    seeddir = os.path.abspath(seeddir)
    name = os.path.basename(seeddir.rstrip("/"))
    meta = json.load(open(os.path.join(seeddir, "meta.json")))
    res = {"id": name, "property": meta["property"], "head": sh(["git", "-C", "/repo", "rev-parse", "--short", "HEAD"])[1].strip()}
    wt = worktree(name)
    try:
        pkg = os.path.join(wt, meta["demo_pkg"])
        demo = os.path.join(pkg, "seed_demo_test.go")
        # clean tree + demo passes
        shutil.copy(os.path.join(seeddir, "seed_demo_test.go"), demo)
        rc, out = sh(["go", "test", "-vet=off", "-count=1", "-run", "TestSeedDemo", "./" + meta["demo_pkg"]], cwd=wt)
        res["demo_clean_passes"] = (rc == 0)
        res["demo_clean_tail"] = out[-400:]
        os.remove(demo)
        rc, out = apply_patch(wt, os.path.join(seeddir, "patch.diff"))
        res["applies"] = (rc == 0)
        if rc:
            res["apply_out"] = out[-500:]
            return res
        rc, out = sh(["go", "build", "./..."], cwd=wt)
        res["builds"] = (rc == 0)
        rc2, out2 = sh(["go", "build", "-tags", "verif", "./..."], cwd=wt)
        res["builds_verif"] = (rc2 == 0)
        if rc:
            res["build_out"] = out[-500:]
            return res
        rc, out = sh(["go", "test", "-vet=off", "-count=1", "./..."], cwd=wt)
        res["suite_passes"] = (rc == 0)
        if rc:
            res["suite_tail"] = out[-600:]
        shutil.copy(os.path.join(seeddir, "seed_demo_test.go"), demo)
        rc, out = sh(["go", "test", "-vet=off", "-count=1", "-run", "TestSeedDemo", "./" + meta["demo_pkg"]], cwd=wt, timeout=900)
        res["demo_patched_fails"] = (rc != 0)
        res["demo_patched_tail"] = out[-500:]
    finally:
        drop(wt)
    res["valid"] = bool(res.get("demo_clean_passes") and res.get("applies") and res.get("builds") and res.get("suite_passes") and res.get("demo_patched_fails"))
    return res


def detect(seeddir, checks, tier="quick"):
    seeddir = os.path.abspath(seeddir)
    name = os.path.basename(seeddir.rstrip("/"))
    wt = worktree(name + "-det")
    out = {"id": name, "checks": {}}
    try:
        rc, o = apply_patch(wt, os.path.join(seeddir, "patch.diff"))
        if rc:
            out["error"] = "patch does not apply: " + o[-300:]
            return out
        for c in checks:
            env = dict(ENV, VERIF_REPO=wt, VERIF_EVIDENCE_DIR="/tmp/mut-evidence-" + name)
            t0 = time.time()
            rc, o = sh([os.path.join(VERIF, "check"), c, "--tier", tier], cwd=VERIF, env=env, timeout=3600)
            lines = [l for l in o.split("\n") if l.startswith("VIOLATION") or l.startswith("# ")]
            out["checks"][c] = {"exit": rc, "wall_s": round(time.time() - t0, 1), "lines": lines[:4]}
    finally:
        drop(wt)
        shutil.rmtree("/tmp/mut-evidence-" + name, ignore_errors=True)
    return out


if __name__ == "__main__":
    if sys.argv[1] == "validate":
        for d in sys.argv[2:]:
            r = validate(d)
            print(json.dumps(r))
            sys.stdout.flush()
    elif sys.argv[1] == "detect":
        print(json.dumps(detect(sys.argv[2], sys.argv[3:])))
