#!/usr/bin/env python3
"""validate seeds from /tmp/seedout/<id> and store valid ones under seeded/<id> (round given by --round)."""
import json, os, shutil, subprocess, sys
V = os.path.dirname(os.path.dirname(os.path.abspath(__file__)))
rnd = 8
ids = [a for a in sys.argv[1:]]
for i in ids:
    p = subprocess.run(["python3", V + "/tools/seedcheck.py", "validate", "/tmp/seedout/" + i], capture_output=True, text=True)
    try:
        v = json.loads(p.stdout.strip().split("\n")[-1])
    except Exception:
        print(i, "ERROR", p.stdout[-300:], p.stderr[-300:]); continue
    print(i, "valid" if v.get("valid") else "INVALID", {k: v.get(k) for k in ("demo_clean_passes", "applies", "builds", "suite_passes", "demo_patched_fails") if not v.get(k)})
    sys.stdout.flush()
    if not v.get("valid"):
        continue
    d = "%s/seeded/%s" % (V, i)
    os.makedirs(d, exist_ok=True)
    for f in ("patch.diff", "seed_demo_test.go"):
        shutil.copy("/tmp/seedout/%s/%s" % (i, f), d)
    m = json.load(open("/tmp/seedout/%s/meta.json" % i))
    m["validated"] = {"repo_head": v["head"], "ran": "tools/seedcheck.py validate: demo passes on clean tree; patch applies; go build ./... ok; go test -vet=off -count=1 ./... passes (all existing tests); demo fails with patch", "result": "valid"}
    m["detected_by"] = {}
    m["round"] = rnd
    json.dump(m, open(d + "/meta.json", "w"), indent=1)
