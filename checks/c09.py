"""C09 — bulk kernels on every dispatch path, with guard pages and canaries."""
import json


def gen_cases(ctx):
    rng = ctx.rng
    thorough = ctx.tier == "thorough"
    consts = [0, 1, 2, 3, 0x100, 0x8000, 0xFFFF] + [rng.randrange(2, 65536) for _ in range(9 if not thorough else 57)]
    small = list(range(0, 132, 2)) + [158, 160, 162, 254, 256, 258]
    big = [65534, 65536, 65538, 98304, 131070, 131072, 131074]
    paths = ["disp1", "disp0", "portable"]
    cases = []
    for c in consts:
        for n in small:
            for acc in (0, 1):
                for p in paths:
                    seed = rng.randrange(1 << 30)
                    nalign = 64 if (thorough or (n in (30, 32, 34, 62, 64, 66, 2) and c == consts[7])) else (8 if n % 16 == 2 else 2)
                    cases.append("c09 kern %s %d %d %d rand %d %d" % (p, acc, c, n, seed, nalign))
    bigconsts = [0xFFFF, consts[7]] + ([1, 2, consts[8], consts[9]] if thorough else [])
    for c in bigconsts:
        for n in big:
            for acc in (0, 1):
                for p in paths:
                    mode = "seq" if n == 131072 else "rand"     # 131072 bytes in seq mode = every 16-bit word value once
                    seed = rng.randrange(1 << 16)
                    cases.append("c09 kern %s %d %d %d %s %d %d" % (p, acc, c, n, mode, seed, 8 if not thorough else 64))
    # every word value through every path for more constants (value sweep)
    for c in [rng.randrange(2, 65536) for _ in range(6 if not thorough else 200)]:
        for p in paths:
            cases.append("c09 kern %s %d %d 131072 seq 0 1" % (p, rng.randrange(2), c))
    mm = []
    for p in ("disp1", "disp0"):
        for acc in (0, 1):
            for li, lo in ((4, 6), (6, 4), (0, 2), (64, 32), (32, 64)):
                mm.append("c09mm %s %d %d %d" % (p, acc, li, lo))
    return cases, mm


def parse(line):
    w = line.split()
    return dict(path=w[2], acc=w[3], c=int(w[4]), n=int(w[5]), mode=w[6], seed=w[7])


def localize(ctx, vh, model, case):
    """re-run one case with full outputs; return first differing word index"""
    w = case.split()
    line = " ".join(w[:9]) + " full"
    i = ctx.run_lines(vh, [line], shards=1)[0].split()
    m = ctx.run_lines(model, [line], shards=1)[0].split()
    if i[0] != "ok" or m[0] != "ok":
        return None
    a, b = i[1], m[2]
    for k in range(0, min(len(a), len(b)), 4):
        if a[k:k + 4] != b[k:k + 4]:
            return {"word_index": k // 4, "impl_word_le": a[k:k + 4], "spec_word_le": b[k:k + 4]}
    return None


def run(ctx):
    ctx.check_props(extra_files=("Findings/C09.v",))
    # the SSSE3 routines are re-read from the assembly source and the theorems re-checked against them
    import os as _os0
    import vlib as _vlib
    gen_fail = None
    try:
        ctx.check_genlink(lambda out: ["python3", _os0.path.join(_vlib.VERIF, "tools", "asm2coq.py"),
                                       _os0.path.join(_vlib.REPO, "gf2p16", "slice_amd64.s"), out],
                          "Ssse3Gen", "Ssse3GenLink", "C09.gen")
    except _vlib.Fail as e:
        gen_fail = str(e)       # keep going: the differential runs below search for a concrete failing input
    try:
        # memory safety of the SSSE3 routines on the instrumented interpreter, for the instruction lists as re-read now
        ctx.check_genlink(lambda out: ["python3", _os0.path.join(_vlib.VERIF, "tools", "asm2coq.py"),
                                       _os0.path.join(_vlib.REPO, "gf2p16", "slice_amd64.s"), out],
                          "Ssse3Gen", "Ssse3BoundsLink", "C09.bounds.gen")
    except _vlib.Fail as e:
        gen_fail = (gen_fail + " | " if gen_fail else "") + str(e)
    try:
        ctx.check_genlink(lambda out: ["python3", _os0.path.join(_vlib.VERIF, "tools", "asm2coq.py"),
                                       _os0.path.join(_vlib.REPO, "gf2p16", "slice_amd64.s"), out, "scalar"],
                          "ScalarGen", "ScalarGenLink", "C09.scalar.gen")
    except _vlib.Fail as e:
        gen_fail = (gen_fail + " | " if gen_fail else "") + str(e)
    model = ctx.build_model()
    vh = ctx.build_harness()
    vh386 = ctx.build_harness(goarch="386")
    if ctx.replay:
        r = json.load(open(ctx.replay))
        cases, mm = [c for c in r["cases"] if c.startswith("c09 ")], [c for c in r["cases"] if c.startswith("c09mm")]
        regr = [c for c in r["cases"] if c.startswith("c09r ")]
        if regr:
            for c in regr:
                print(c, "impl:", ctx.run_lines(vh, [c], shards=1)[0] if " chunks " not in c else "-", "model:", ctx.run_lines(model, [c], shards=1)[0])
    else:
        cases, mm = gen_cases(ctx)
        import os
        corpus = [l.strip() for l in open(os.path.join(os.path.dirname(__file__), "..", "corpus", "c09.txt")) if l.strip()]
        cases = corpus + cases      # witnesses of fixed defects run first
    impl = ctx.run_lines(vh, cases)
    mod = ctx.run_lines(model, cases)
    # 386 build (the !amd64 dispatch file): exported entry points, same data
    c386 = [c for c in cases if " portable " in c]
    l386 = [c.replace(" portable ", " exported ") for c in c386]
    impl386 = ctx.run_lines(vh386, l386)
    mod_by_case = dict(zip(cases, mod))
    dist = {"by_path": {}, "by_len_class": {"small": 0, "big": 0}, "status": {}}
    reported = 0

    def judge(case, i, m, tag):
        nonlocal reported
        d = parse(case)
        iw, mw = i.split(), m.split()
        dist["status"][iw[0].split(":")[0]] = dist["status"].get(iw[0].split(":")[0], 0) + 1
        why = None
        if mw[0] != "ok":
            why = "model reports an out-of-bounds access / panic on a well-formed call (model out of date?)"
        elif iw[0] != "ok":
            why = "implementation: %s (memory fault, touched canary, modified input or placement-dependent result)" % iw[0]
        elif iw[1] != mw[2]:
            why = "implementation output differs from element-wise field multiplication"
        elif iw[1] != mw[1]:
            why = "implementation output differs from the kernel model (which equals the specification)"
        if why and reported < 5:
            reported += 1
            extra = None
            if iw[0] == "ok":
                extra = localize(ctx, vh386 if tag == "386" else vh, model, case if tag != "386" else case.replace(" portable ", " exported ")) if tag != "386" else None
            ctx.violation("%s [%s]: %s %s" % (case, tag, why, extra or ""),
                          {"cases": [case], "build": tag, "impl": i, "model": m, "detail": extra,
                           "class": {"path": d["path"], "status": iw[0].split(":")[0], "len_ge_65536": d["n"] >= 65536}})

    for c, i, m in zip(cases, impl, mod):
        d = parse(c)
        dist["by_path"][d["path"]] = dist["by_path"].get(d["path"], 0) + 1
        dist["by_len_class"]["big" if d["n"] >= 65534 else "small"] += 1
        ctx.count(c, d["c"] not in (0, 1) and d["n"] >= 2)
        if d["n"] in (64, 65536) and d["c"] > 3:
            ctx.sample({"case": c, "impl": i, "model": m})
        judge(c, i, m, "amd64")
    for c, i in zip(c386, impl386):
        dist["by_path"]["exported-386"] = dist["by_path"].get("exported-386", 0) + 1
        ctx.count(c + " 386", parse(c)["c"] not in (0, 1) and parse(c)["n"] >= 2)
        judge(c, i, mod_by_case[c], "386")
    # the per-constant tables are built once per process (init): under processor counts that do not divide 65536 too - the top
    # constants on every path, in processes started with GOMAXPROCS = 3, 7 and 12
    import os as _os1
    topc = ["c09 kern %s %d %d 70 rand %d 8" % (pth_, acc_, c_, ctx.rng.randrange(1 << 30)) for pth_ in ("disp0", "portable", "disp1") for acc_ in (0, 1)
            for c_ in (65535, 65534, 65533, 65532, 65531, 65530, 65528, 65521, 43691, 21846)]
    topm = ctx.run_lines(model, topc)
    for gmp in ("3", "7", "12"):
        topi = ctx.run_lines(vh, topc, env=dict(_os1.environ, GOMAXPROCS=gmp), shards=2)
        for c, i, m in zip(topc, topi, topm):
            ctx.count(c + " GOMAXPROCS=" + gmp, True)
            dist["by_path"]["gomaxprocs-" + gmp] = dist["by_path"].get("gomaxprocs-" + gmp, 0) + 1
            judge(c, i, m, "amd64 GOMAXPROCS=" + gmp)
    # mismatched lengths panic on the amd64 dispatch paths
    im = ctx.run_lines(vh, mm)
    mo = ctx.run_lines(model, mm)
    for c, i, m in zip(mm, im, mo):
        ctx.count(c, False)
        if i != m:
            ctx.violation("%s: implementation %s, model %s" % (c, i, m), {"cases": [c], "class": {"path": "mismatch"}})
    # register-level SSSE3 routines (amd64): the instruction-level model of Model/Ssse3.v against the assembly
    import os as _os
    rng = ctx.rng
    reg = []
    rconsts = [0, 1, 2, 0x100, 0xFFFF, 0x8000] + [rng.randrange(2, 65536) for _ in range(10 if ctx.tier != "thorough" else 120)]
    def rb(n, kind):
        if kind == "seq":
            return bytes((7 * k + 1) & 255 for k in range(n))
        if kind == "ff":
            return b"\xff" * n
        if kind == "nib":
            return bytes(((k & 15) << 4 | (15 - (k & 15))) for k in range(n))
        return bytes(rng.randrange(256) for _ in range(n))
    for kind in ("seq", "ff", "nib", "rand", "rand", "rand"):
        reg.append("c09r s2a 0 " + rb(32, kind).hex())
        reg.append("c09r a2s 0 " + rb(32, kind).hex())
    for c in rconsts:
        for kind in ("seq", "ff", "rand"):
            reg.append("c09r mulalt %d %s" % (c, rb(32, kind).hex()))
            reg.append("c09r mulstd %d %s" % (c, rb(32, kind).hex()))
            reg.append("c09r muladd %d %s" % (c, rb(64, kind).hex()))
    ir = ctx.run_lines(vh, reg)
    mr = ctx.run_lines(model, reg)
    dist["register_level"] = {}
    for c, i, m in zip(reg, ir, mr):
        op = c.split()[1]
        dist["register_level"][op] = dist["register_level"].get(op, 0) + 1
        ctx.count(c, op in ("s2a", "a2s") or int(c.split()[2]) > 1)
        if i != m and reported < 8:
            reported += 1
            ctx.violation("%s: SSSE3 routine output %s differs from the instruction-level model %s" % (c[:60], i[:70], m[:70]),
                          {"cases": [c], "impl": i, "model": m, "class": {"path": "ssse3-register", "op": op}}, no_failing_input=False)
    # the instruction-level slice loop against the dispatch kernel on whole buffers
    chunk_lines, kern_expect = [], []
    for n in (32, 64, 96, 160):
        for acc in (0, 1):
            c = rng.randrange(2, 65536)
            inb, outb = rb(n, "rand"), rb(n, "rand")
            chunk_lines.append("c09r chunks %d %d %s %s" % (acc, c, inb.hex(), outb.hex()))
    cm = ctx.run_lines(model, chunk_lines)
    from . import gf as _gf
    for c, m in zip(chunk_lines, cm):
        w = c.split()
        acc, cc, inb, outb = int(w[2]), int(w[3]), bytes.fromhex(w[4]), bytes.fromhex(w[5])
        want = bytearray()
        for k in range(0, len(inb), 2):
            x = _gf.gmul(cc, inb[k] | inb[k + 1] << 8) ^ ((outb[k] | outb[k + 1] << 8) if acc else 0)
            want += bytes([x & 255, x >> 8])
        ctx.count(c, True)
        if m != want.hex():
            ctx.violation("%s: instruction-level SSSE3 loop model differs from field multiplication" % c[:50],
                          {"cases": [c], "model": m, "want": want.hex(), "class": {"path": "ssse3-chunks-model"}}, no_failing_input=True)
    if gen_fail:
        ctx.violation("the instruction-level theorems (SSSE3 / scalar kernels) no longer check against the assembly source: %s%s" % (gen_fail[:700], " (a concrete failing input was found by the differential runs: see the other violations)" if ctx.violations else ""),
                      {"cases": [], "theorem": "coq/GenLink/Ssse3GenLink.v (gen_*_eq / GEN_*) against Ssse3Gen.v regenerated by tools/asm2coq.py", "detail": gen_fail[-3000:],
                       "class": {"path": "ssse3-genlink"}}, no_failing_input=not ctx.violations)
    return ctx.finish(
        "proof",
        rule="case = (path, mul|muladd, constant, length, data, alignments); each case runs the kernel with both buffers ending at a PROT_NONE page, starting after one, and at up to 64 src/dst alignments between canaries; non-trivial = constant not 0/1 and length >= 2",
        extra={"input_distribution": dist,
               "register_level": "c09r lines: each SSSE3 routine (standardToAltMap, altToStandardMap, mulAltMap, mulSSSE3, mulAndAddSSSE3) is run on the same 16-byte registers through the verif hooks and in the extracted instruction-level model (Model/Ssse3.v); outputs must be byte-identical",
               "compared": "output bytes (digest; full bytes on mismatch) vs extracted kernel model and vs extracted kspec_fast (= kspec by C09_kspec_fast); fault/canary/input-modified status",
               "runtime_evidence_only": "machine-level memory accesses of the assembly are observed (guard pages, canaries), not proved; the proof covers the loops' index arithmetic and the table decomposition"})
