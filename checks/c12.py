"""C12 — results independent of goroutine count / scheduling: partition function and
applyMatrix variants vs the proved model, under several GOMAXPROCS and the race detector."""
import json
import os


def gen_cases(ctx):
    rng = ctx.rng
    thorough = ctx.tier == "thorough"
    params = []
    tmax, gmax = (600, 64) if not thorough else (2500, 130)
    for total in range(0, tmax + 1):
        for g in range(1, gmax + 1):
            params.append("c12 params %d %d 16 16" % (total, g))
            if total <= 200:
                params.append("c12 params %d %d 1 1" % (total, g))
    for total in (65534, 65536, 65538, 131070, 131072, 131074, 1 << 20, (1 << 31) - 2):
        for g in (1, 2, 3, 7, 16, 17, 4095, 4096, 4097, 65536, total // 16, total // 16 + 1, total):
            if g >= 1:
                params.append("c12 params %d %d 16 16" % (total, g))
    apply = []
    lens = list(range(0, 36)) + [63, 64, 65, 127, 255, 256, 2047] + ([32769] if True else [])
    gs = [1, 2, 3, 4, 5, 6, 7, 8, 9, 16, 17, 64, 1000]
    for words in lens:
        for g in gs:
            if words > 300 and g not in (1, 2, 7, 17, 1000):
                continue
            rows, nin = rng.choice([(1, 1), (2, 3), (5, 2), (3, 4)])
            if words > 3000:
                rows, nin = 2, 2
            seed = rng.randrange(1 << 30)
            for variant in ("data", "out"):
                apply.append((variant, rows, nin, words, g, "c12 apply %s %d %d %d %d %d" % (variant, rows, nin, words, g, seed)))
            if g == 1:
                apply.append(("single", rows, nin, words, g, "c12 apply single %d %d %d %d %d" % (rows, nin, words, g, seed)))
    # row-parallel variant with more rows than goroutines and vice versa
    for rows in (1, 2, 3, 7, 8, 9, 33):
        for g in (1, 2, 3, 4, 8, 40):
            seed = rng.randrange(1 << 30)
            apply.append(("out", rows, 2, 9, g, "c12 apply out %d 2 9 %d %d" % (rows, g, seed)))
    # many input shards (more columns than any small per-worker buffer) and chunks of several KiB per worker that are
    # not a multiple of 64 bytes: every worker must use its own view of the row and cover exactly its own range
    for rows, nin, words, g in ((2, 65, 96, 2), (3, 70, 520, 4), (2, 257, 64, 8), (3, 300, 40, 3), (2, 129, 2048, 16),
                                (2, 3, 8192, 3), (1, 2, 50000, 4), (2, 2, 32769, 2), (2, 4, 6152, 3), (2, 2, 4104, 2),
                                (2, 2, 50000, 2), (1, 3, 70000, 3), (2, 2, 40000, 5)):       # worker ranges above 32 KiB not starting on a 32 KiB multiple
        for variant in ("data", "out"):
            apply.append((variant, rows, nin, words, g, "c12 apply %s %d %d %d %d %d" % (variant, rows, nin, words, g, rng.randrange(1 << 30))))
    if thorough:
        for _ in range(1500):
            rows, nin, words, g = rng.randrange(1, 9), rng.randrange(1, 6), rng.randrange(0, 400), rng.randrange(1, 70)
            v = rng.choice(["data", "out"])
            apply.append((v, rows, nin, words, g, "c12 apply %s %d %d %d %d %d" % (v, rows, nin, words, g, rng.randrange(1 << 30))))
    return params, apply


def run(ctx):
    ctx.check_props()
    gen_fail = ctx.genlink_goarith("GoLinkC12")    # the Go arithmetic / constants are re-translated from the source and the GEN_* theorems re-checked
    model = ctx.build_model()
    vh = ctx.build_harness()
    vh_race = ctx.build_harness(race=True)
    if ctx.replay:
        r = json.load(open(ctx.replay))
        params, apply = r.get("params", []), [tuple(a) for a in r.get("apply", [])]
    else:
        params, apply = gen_cases(ctx)
    reported = [0]

    def report(msg, obj, nf=False):
        if reported[0] < 5:
            reported[0] += 1
            ctx.violation(msg, obj, no_failing_input=nf)

    # 1. partition function, exhaustive grid
    pi = ctx.run_lines(vh, params)
    pm = ctx.run_lines(model, params)
    multi = 0
    for line, i, m in zip(params, pi, pm):
        t = line.split()
        nontriv = m.split()[1] not in ("0", "1") if len(m.split()) == 2 else False
        multi += nontriv
        ctx.count(line, nontriv)
        if i != m:
            report("calculateParallelParams differs from the proved model: %s impl=%s model=%s" % (line, i, m),
                   {"params": [line], "impl": i, "model": m, "class": {"op": "params"}})
    # 2. applyMatrix variants: model once, implementation under several GOMAXPROCS + race detector
    lines = [a[5] for a in apply]
    am = ctx.run_lines(model, lines)
    runs = {}
    for procs in ("1", "2", "16"):
        env = dict(os.environ, GOMAXPROCS=procs)
        runs["GOMAXPROCS=" + procs] = ctx.run_lines(vh, lines, env=env, shards=4)
    race_lines = [a[5] for a in apply if a[3] <= 2047]
    race_env = dict(os.environ, GOMAXPROCS="8", GORACE="halt_on_error=1 exitcode=66")
    race_out = ctx.run_lines(vh_race, race_lines, env=race_env, shards=8, timeout=3000)
    race_map = dict(zip(race_lines, race_out))
    dist = {"variant": {}, "multiworker": 0}
    for a, m, idx in zip(apply, am, range(len(apply))):
        variant, rows, nin, words, g, line = a
        # number of workers the code uses (from the proved partition)
        nwork = g if variant == "single" else None
        dist["variant"][variant] = dist["variant"].get(variant, 0) + 1
        total = 2 * words if variant == "data" else rows
        mn = 16 if variant == "data" else 1
        per = max((total + g - 1) // g, mn)
        per += (mn - per % mn) % mn
        nw = (total + per - 1) // per if variant != "single" else 1
        nontriv = nw >= 2
        dist["multiworker"] += nontriv
        ctx.count(line, nontriv)
        if nontriv and words in (9, 35) :
            ctx.sample({"case": line, "workers": nw, "model": m, "impl": runs["GOMAXPROCS=16"][idx]})
        for name, outs in runs.items():
            i = outs[idx]
            if i != m:
                why = ("implementation panicked/crashed" if not i.startswith("ok") and i not in ("input-modified", "wrote-outside-output")
                       else "output differs from single-threaded matrix product" if i.startswith("ok") else i)
                report("applyMatrix %s (%s): %s; impl=%s model=%s; %s" % (variant, name, why, i[:60], m, line),
                       {"apply": [list(a)], "impl": i, "model": m, "env": name, "class": {"op": "apply", "variant": variant}})
        r = race_map.get(line)
        if r is not None and r != m:
            why = "race detector report or crash" if not r.startswith("ok") else "output differs"
            report("applyMatrix %s under -race: %s; impl=%s model=%s; %s" % (variant, why, r[:200], m, line),
                   {"apply": [list(a)], "impl": r, "model": m, "env": "race", "class": {"op": "apply-race", "variant": variant}})
    # 3. consequently Create output and Repair results are identical for every value of the goroutine option
    from . import p2lib as L
    from . import par2common as P
    rng = ctx.rng
    e2e = 0
    # (4, 2800): 700 slices; with the 100 recovery blocks asked for below that is a parity matrix of 70000 elements
    # (40000, ...): per-goroutine byte ranges above 32 KiB that are not a multiple of it
    for S_, nbytes in ((4, 70), (40, 40 * 4 + 7), (64, 64 * 5 + 33), (100, 100 * 3 + 1), (2000, 16 * 2000 + 123), (4, 2800), (40000, 3 * 40000 + 5)):
        # 1 damaged slice + the 2 slices of the deleted file = 3 lost slices against 5 blocks: the Repairs really reconstruct
        files = {"a.bin": L.gen_content(rng, "random", nbytes), "b.bin": L.gen_content(rng, "random", max(1, 2 * S_ - 1))}
        GS = (1, 2, 4, 5, 6, 8, 15, 17, 32, 0)        # 0 = the option's default (rsec16.DefaultNumGoroutines)
        nblk_ = 100 if nbytes == 2800 else 5
        if nbytes == 2800 or S_ == 40000:
            GS = (1, 2, 3, 7, 16)
        sets = [P.PSet(dict(files), S_, nblk_, g=g) for g in GS]
        for s_ in sets:
            s_.bystanders = {}
        cl = [s_.create_line("mem") for s_ in sets]
        ci = ctx.run_lines(vh, cl)
        outs = [L.parse_result(x) for x in ci]
        for s_, line, o in zip(sets, cl, outs):
            e2e += 1
            ctx.count("create-g|%d|%d" % (S_, s_.g), s_.g > 1)
            if o["res"] != "ok" or o["changed"] != outs[0]["changed"]:
                report("Create output with %d goroutines differs from the single-goroutine output (slice size %d)" % (s_.g, S_),
                       {"lines": [cl[0], line], "class": {"op": "create-goroutines"}})
        if outs[0]["res"] != "ok":
            continue
        base = L.apply_changed(sets[0].input_fs(), outs[0]["changed"])
        dmg = dict(base)
        d = dmg[sets[0].paths["a.bin"]]
        dmg[sets[0].paths["a.bin"]] = d[:S_] + bytes([d[S_] ^ 1]) + d[S_ + 1:] if len(d) > S_ else d[:-1]
        del dmg[sets[0].paths["b.bin"]]
        rl = [L.line_repair("p2", "mem", sets[0].index, g % 2 == 0, g, dmg) for g in GS]
        ri = [L.parse_result(x) for x in ctx.run_lines(vh, rl)]
        for g, line, o in zip(GS, rl, ri):
            e2e += 1
            ctx.count("repair-g|%d|%d" % (S_, g), g > 1)
            after_ = L.apply_changed(dmg, o["changed"])
            if g == 1 and (o["res"] != "ok" or any(after_.get(sets[0].paths[n_]) != files[n_] for n_ in files)):
                report("Repair of 3 lost slices with 5 recovery blocks did not restore the files (slice size %d): %s" % (S_, o["res"]),
                       {"lines": [line], "class": {"op": "repair-goroutines"}})
            if o["res"] != ri[0]["res"] or o["changed"] != ri[0]["changed"]:
                report("Repair result with %d goroutines differs from the single-goroutine result (slice size %d): %s vs %s" % (g, S_, o["res"], ri[0]["res"]),
                       {"lines": [rl[0], line], "class": {"op": "repair-goroutines"}})
    # 4. the DEFAULT of the goroutine option is a usable count on every build: with the `noasm` tag (and on CPUs of unknown
    # vendors) the CPU library reports 0 physical cores; Create and Repair with the option left at 0 must still work
    try:
        vh_na = ctx.build_harness(tags="verif noasm", name="vhna")
        dg = ctx.run_lines(vh_na, ["c12 defaultg"])[0]
        ps_na = P.PSet({"a.bin": L.gen_content(rng, "random", 50), "b.bin": L.gen_content(rng, "random", 9)}, 4, 3, g=0)
        ps_na.bystanders = {}
        cna = L.parse_result(ctx.run_lines(vh_na, [ps_na.create_line("mem")])[0])
        ctx.count("default-goroutines-noasm", True)
        dist["default_goroutines_noasm_build"] = dg
        if not dg.isdigit() or int(dg) < 1 or cna["res"] != "ok":
            report("with the goroutine option at its default, a build with the noasm tag (no CPU detection) gets %s goroutines; Create: %s" % (dg, cna["res"]),
                   {"lines": ["c12 defaultg", ps_na.create_line("mem")], "build_tags": "verif noasm", "class": {"op": "default-goroutines"}})
    except Exception as e:
        dist["default_goroutines_noasm_build"] = "not run: %s" % str(e)[:200]
    ctx.report_genlink(gen_fail, "GoLinkC12")
    return ctx.finish(
        "proof",
        rule="calculateParallelParams: exhaustive grid total 0..600 x g 1..64 for (16,16) and (1,1) (thorough 0..2500 x 1..130) plus totals around 2^16, 2^17, 2^20, 2^31 with g up to total; applyMatrix Single/ParallelData/ParallelOut on shard lengths 0..35, 63..65, 127, 255, 256, 2047, 32769 words x g in {1..9,16,17,64,1000} x GOMAXPROCS {1,2,16}, and under the race detector (GOMAXPROCS=8); outputs start as garbage between canaries; non-trivial = at least two workers after clamping",
        exhaustive=False,
        extra={"input_distribution": dist, "params_cases": len(params), "params_multiworker": multi,
               "apply_cases": len(apply), "race_detector_cases": len(race_lines), "create_repair_goroutine_cases": e2e,
               "runtime_evidence_only": "data-race freedom of the Go implementation (race detector); the theorems prove footprint disjointness and schedule independence of the small-step model",
               "compared": "(per, workers) vs par_params; digest of all output shards vs apply_matrix of the coder model (which has no goroutine parameter); inputs and canaries re-read"})
