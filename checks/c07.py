"""C07 — Reed-Solomon coder: implementation vs proved model on erasure patterns."""
import itertools
import json


def masks(n):
    return ["".join(m) for m in itertools.product("01", repeat=n)]


def gen_cases(ctx):
    rng = ctx.rng
    thorough = ctx.tier == "thorough"
    cases = []          # (class, nontrivial, line)
    # constructor limits and panics (errors only; small other dimension so nothing big is built)
    for kind, d, p in (("cauchy", 65534, 1), ("cauchy", 65535, 1), ("cauchy", 1, 65534), ("cauchy", 1, 65535),
                       ("cauchy", 300, 65236), ("vandermonde", 32768, 1), ("vandermonde", 32769, 1),
                       ("vandermonde", 1, 65535), ("vandermonde", 1, 65536)):
        if not thorough and (d > 40000 or p > 40000) and kind == "cauchy" and d + p <= 65535:
            continue        # the valid near-limit codes are built in the thorough tier only
        if not thorough and kind == "vandermonde" and (d == 32768 or p == 65535):
            continue
        cases.append(("limits", False, "c07 new %s %d %d 1" % (kind, d, p)))
    for kind in ("cauchy", "vandermonde"):
        for d, p, g in ((0, 1, 1), (1, 0, 1), (1, 1, 0), (-1, 1, 1), (2, 2, -3)):
            cases.append(("limits", False, "c07 new %s %d %d %d" % (kind, d, p, g)))
    # every erasure subset (data and parity) of every small code
    dmax, pmax = (5, 4) if not thorough else (7, 5)
    for kind in ("cauchy", "vandermonde"):
        for d in range(1, dmax + 1):
            for p in range(1, pmax + 1):
                words = rng.choice([1, 2, 15, 17])
                seed = rng.randrange(1 << 30)
                g = rng.choice([1, 2, 3, 7])
                for kd in masks(d):
                    for kp in masks(p):
                        cases.append(("allsubsets", "0" in kd,
                                      "c07 rt %s %d %d %d %d %d %s %s" % (kind, d, p, g, words, seed, kd, kp)))
    # random larger codes (crossing 256 columns), exact-capacity and one-short erasures, gaps in the parity
    sizes = [(8, 8), (17, 5), (40, 12), (100, 20), (260, 16), (300, 40)]
    if thorough:
        sizes += [(700, 64), (1500, 30), (3000, 8)]
    for kind in ("cauchy", "vandermonde"):
        for d, p in sizes:
            for rep in range(6 if d <= 100 else 3):
                words = rng.choice([1, 2, 15, 17, 33])
                g = rng.choice([1, 2, 3, 7])
                seed = rng.randrange(1 << 30)
                avail = rng.randrange(0, p + 1)
                kp = ["0"] * p
                for i in rng.sample(range(p), avail):
                    kp[i] = "1"
                mode = rep % 3
                miss = avail if mode == 0 else (avail + 1 if mode == 1 else rng.randrange(0, avail + 1))
                miss = min(miss, d)
                kd = ["1"] * d
                for i in rng.sample(range(d), miss):
                    kd[i] = "0"
                cases.append(("random", miss > 0,
                              "c07 rt %s %d %d %d %d %d %s %s" % (kind, d, p, g, words, seed, "".join(kd), "".join(kp))))
    # PAR2-Vandermonde singular minors, constructed from the multiplicative orders of the constants:
    # constants 2^a and 2^b with (a-b) = 13107k have ratio of order 5: rows e and e+5 of the two columns are dependent.
    # generator exponents 1 and 13108 are the 0th and j-th constants; the harness locates j by the model's own list.
    for (e1, e2, a_idx, b_exp, d) in ((0, 5, 0, 13108, 6600), (1, 6, 0, 13108, 6600)) + (((0, 3, 1, 21847, 11000),) if thorough else ()):
        # index of exponent b_exp in the list of exponents not divisible by 3,5,17,257
        idx = sum(1 for i in range(b_exp) if i % 3 and i % 5 and i % 17 and i % 257)
        p = e2 + 2
        kd = ["1"] * d
        kd[a_idx] = "0"; kd[idx] = "0"
        kp = ["0"] * p
        kp[e1] = "1"; kp[e2] = "1"; kp[e2 + 1] = "1"
        cases.append(("vandermonde-singular", True,
                      "c07 rt vandermonde %d %d 2 1 %d %s %s" % (d, p, rng.randrange(1 << 30), "".join(kd), "".join(kp))))
        # control: same erasures, rows e1 and e1+1 available -> must succeed
        kp2 = ["0"] * p
        kp2[e1] = "1"; kp2[e1 + 1] = "1"
        cases.append(("vandermonde-singular-control", True,
                      "c07 rt vandermonde %d %d 2 1 %d %s %s" % (d, p, rng.randrange(1 << 30), "".join(kd), "".join(kp2))))
    # PAR2-Vandermonde systems whose leading minor is singular but which are solvable: the elimination has to
    # exchange rows while the augmented side is wider than the square part.  Columns j1 < j2 whose constants
    # 2^a, 2^b have (b-a) a multiple of 255 (resp. 257) make rows {0, 257} (resp. {0, 255}) dependent on them.
    E = [i for i in range(2000) if i % 3 and i % 5 and i % 17 and i % 257]
    pairs = []
    for mod_, row in ((255, 257), (257, 255)):
        for j1 in range(0, 6):
            for j2 in range(j1 + 1, 400):
                if (E[j2] - E[j1]) % mod_ == 0:
                    pairs.append((j1, j2, row))
                    break
    for (j1, j2, row) in pairs[: (6 if not thorough else 12)]:
        d = j2 + 12
        p = row + 3
        j3 = j2 + 1
        kd = ["1"] * d
        for j in (j1, j2, j3):
            kd[j] = "0"
        kp = ["0"] * p
        for r in (0, row, row + 1):
            kp[r] = "1"
        cases.append(("vandermonde-rowswap", True,
                      "c07 rt vandermonde %d %d %d %d %d %s %s" % (d, p, rng.choice([1, 3]), rng.choice([1, 17]), rng.randrange(1 << 30), "".join(kd), "".join(kp))))
    # one coder object, several reconstructions: same missing data shards, different available parity shards
    for kind in ("cauchy", "vandermonde"):
        for d, p in ((3, 3), (5, 4), (8, 6), (20, 7)):
            for _ in range(4 if not thorough else 12):
                nm = rng.randrange(1, min(d, p - 1) + 1)
                kd = ["1"] * d
                for i in rng.sample(range(d), nm):
                    kd[i] = "0"
                kps = []
                for _k in range(3):
                    avail = rng.sample(range(p), rng.randrange(nm, p + 1))
                    kps.append("".join("1" if i in avail else "0" for i in range(p)))
                kps.append("0" * p)
                cases.append(("same-coder-twice", True, "c07 rt2 %s %d %d %d %d %d %s %s" % (kind, d, p, rng.choice([1, 2]), rng.choice([1, 9]), rng.randrange(1 << 30), "".join(kd), " ".join(kps))))
    # large valid Cauchy codes: the constructor must succeed (new_coder = Ok by its definition and C07_cauchy_wf);
    # run on the implementation only - the extracted model is quadratic in d for unary indices
    # ... and the documented maxima of the PAR2 code: 32768 data shards, 65535 parity shards
    for kind, d, p in (("cauchy", 40000, 2), ("cauchy", 32769, 2), ("cauchy", 2, 40000), ("cauchy", 3, 32770),
                       ("vandermonde", 1, 65535), ("vandermonde", 2, 65534), ("vandermonde", 32768, 1)):
        cases.append(("limits-implonly", False, "c07 new %s %d %d 1" % (kind, d, p)))
    return cases


def run(ctx):
    ctx.check_props()
    gen_fail = ctx.genlink_goarith("GoLinkC07")    # the table of PAR2 constants (init() of rsec16/coder.go) is re-translated from the source
    model = ctx.build_model()
    vh = ctx.build_harness()
    if ctx.replay:
        cases = [tuple(c) for c in json.load(open(ctx.replay))["cases_full"]]
    else:
        cases = gen_cases(ctx)
    lines = [c[2] for c in cases]
    impl = ctx.run_lines(vh, lines, timeout=3000)
    mlines = [c[2] for c in cases if c[0] != "limits-implonly"]
    mres = dict(zip(mlines, ctx.run_lines(model, mlines, timeout=3000)))
    mod = [mres.get(c[2], "ok") for c in cases]
    dist = {"class": {}, "outcome": {}}
    reported = 0
    singular_seen = 0
    matrix_only = []
    for (cls, nontriv, line), i, m in zip(cases, impl, mod):
        dist["class"][cls] = dist["class"].get(cls, 0) + 1
        oc = " ".join(m.split()[:2]) if m.startswith("err") else m.split()[0]
        dist["outcome"][oc] = dist["outcome"].get(oc, 0) + 1
        ctx.count(line, nontriv)
        if cls == "vandermonde-singular":
            ctx.sample({"case": line[:60] + "...", "impl": i, "model": m})
            if m.startswith("err other"):
                singular_seen += 1
        elif cls == "allsubsets" and nontriv and len(ctx.samples) < 4 and line.split()[3] == "3":
            ctx.sample({"case": line, "impl": i, "model": m})
        why = None
        if cls == "same-coder-twice" and "WRONG" in i:
            why = "nil error but restored shards differ from the originals (second reconstruction on the same coder)"
        elif "modified" in i or "datamod" in i:
            why = "a supplied shard was altered"
        elif i.startswith("ok") and i.endswith("WRONG"):
            why = "nil error but restored shards differ from the originals"
        elif i.startswith("panic") and not m.startswith("panic"):
            why = "implementation panicked"
        elif i != m:
            why = "outcome differs from the proved model"
        # a different but equally valid parity matrix changes only the parity digest: the property still holds on
        # this case, so it is a broken correspondence (reported after the search over the remaining cases)
        only_matrix = False
        if why == "outcome differs from the proved model":
            ti, tm = i.split(), m.split()
            if len(ti) == len(tm) and ti[0] == tm[0] and (ti[0] == "ok" and ti[-1] == "exact" == tm[-1] or ti[0] == "err" and ti[1] == tm[1]):
                only_matrix = True
        if why and only_matrix:
            matrix_only.append((cls, nontriv, line, i, m))
        elif why and reported < 5:
            reported += 1
            ctx.violation("%s: %s; impl=%s model=%s; case=%s" % (cls, why, i[:80], m[:80], line[:120]),
                          {"cases_full": [[cls, nontriv, line]], "impl": i, "model": m, "class": {"class": cls}})
    if matrix_only and reported == 0:
        cls, nontriv, line, i, m = matrix_only[0]
        ctx.violation("generated parity differs from the model's matrix on %d cases although every outcome is correct (first: %s impl=%s model=%s)" % (len(matrix_only), line[:100], i[:60], m[:60]),
                      {"cases_full": [[cls, nontriv, line]], "impl": i, "model": m, "class": {"class": "matrix-only"}}, no_failing_input=True)
    if False:
        pass
    if not ctx.replay and singular_seen == 0:
        ctx.violation("the constructed PAR2-Vandermonde singular minors were not singular in the model: generator no longer reaches the singular branch",
                      {"cases_full": [], "class": {"class": "generator"}}, no_failing_input=True)
    ctx.report_genlink(gen_fail, "GoLinkC07")
    return ctx.finish(
        "proof",
        rule="every erasure subset (data x parity masks) of every code with d<=5,p<=4 (thorough d<=7,p<=5) for both coders, shard lengths 1,2,15,17 words, goroutines 1,2,3,7; random codes up to 300+40 (thorough 3000) at exact capacity, one short, and below; constructor limits/panics; PAR2-Vandermonde singular 2x2 minors built from constants whose ratio has order 5 (and 3), with a non-singular control; non-trivial = at least one data shard erased",
        extra={"input_distribution": dist, "exhaustive_small_codes": True,
               "compared": "error class (not-enough / other / none), digest of generated parity, digest of restored shards, exactness vs originals; supplied shards re-read after the call"})
