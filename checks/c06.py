"""C06 — gopar reads any conformant PAR2 set, however it is laid out (independent writer, free layout)."""
import json
from . import p2lib as L
from . import par2common as P
from . import par2writer as W

BASES = ["arc", "Arc", "MiXed.Case", "my[1]", "we*ird", "a b", "q?x", "back\\slash", "br{ace}", "dots.in.name", "[", "x]y[z",
         # names that end in characters of the extension itself, in a dot, in digits (prefix/suffix trimming by character set)
         "backup", "data", "par2", "photos.2022", "set.", "a.par2.par", "2", "r.p.a.r"]
VOLNAMES = ["vol00+01", "vol7+3", "x", "a b", "part1", "more blocks", "[1]", "*", "z.y"]


def make_layout(rng, ss, base, exps, nvol, fancy=True):
    """returns dict path -> bytes for index + volume files"""
    d = P.DIR
    core = ss.core_packets()
    files = {}
    # index: own-set packet first, creator somewhere, no recovery packets; permuted, duplicates, foreign/unknown interleaved
    ix = list(core) + [ss.p_creator()]
    if fancy:
        rng.shuffle(ix)
        for _ in range(rng.randrange(0, 3)):
            ix.insert(rng.randrange(1, len(ix) + 1), rng.choice(core + [ss.p_creator(b"other creator text!!")]))
        for _ in range(rng.randrange(0, 3)):
            ix.insert(rng.randrange(1, len(ix) + 1), W.foreign_packet(rng))
        for _ in range(rng.randrange(0, 2)):
            ix.insert(rng.randrange(1, len(ix) + 1), W.unknown_packet(ss.setid, rng))
    files[d + "/" + base + ".par2"] = b"".join(ix)
    names = rng.sample(VOLNAMES, min(nvol, len(VOLNAMES)))
    buckets = [[] for _ in names]
    for e in exps:
        buckets[rng.randrange(len(buckets))].append(e)
        if fancy and rng.random() < 0.2:             # the same block stored twice (identical)
            buckets[rng.randrange(len(buckets))].append(e)
    for name, es in zip(names, buckets):
        pk = [ss.p_recv(e) for e in es] + [ss.p_creator()]
        if not fancy or rng.random() < 0.6:
            pk += core if rng.random() < 0.7 else [ss.p_main()]
        if fancy:
            rng.shuffle(pk)
            if rng.random() < 0.4:
                pk.insert(rng.randrange(len(pk) + 1), W.foreign_packet(rng))
            if rng.random() < 0.3:
                pk.insert(rng.randrange(len(pk) + 1), W.unknown_packet(ss.setid, rng))
        files[d + "/" + base + "." + name + ".par2"] = b"".join(pk)
    return files


def run(ctx):
    ctx.check_props()
    model = ctx.build_model()
    vh = ctx.build_harness()
    if ctx.replay:
        r = json.load(open(ctx.replay))
        impl, mod = P.run_both(ctx, vh, model, r["lines"])
        for l, i, m in zip(r["lines"], impl, mod):
            print("impl :", i[:300]); print("model:", m[:300])
            if L.canon(i, r.get("mode", "mem")) != L.canon(m, r.get("mode", "mem")):
                ctx.violation("replay: implementation and model differ", {"lines": [l], "mode": r.get("mode", "mem")})
        return ctx.finish("proof", rule="replay")
    rng = ctx.rng
    thorough = ctx.tier == "thorough"
    rep = [0]

    def report(msg, obj, nf=False):
        if rep[0] < 6:
            rep[0] += 1
            ctx.violation(msg, obj, no_failing_input=nf)

    cases = []
    dist = {"base": {}, "exps": {}, "mode": {}, "damage": {}}
    nsets = 40 if not thorough else 150
    for k in range(nsets):
        S = rng.choice([4, 8, 12])
        nf = rng.randrange(1, 4)
        names = rng.sample(["a.dat", "sub/b.bin", "sub/deep/c", "d d", "e", "report..final.txt", "v1..v2/diff.txt", "abcd", "a...b"], nf)
        files = [(n, L.gen_content(rng, rng.choice(["random", "random", "lowent"]), rng.choice([1, S, S + 1, 3 * S + 2]))) for n in names]
        ss = W.SpecSet(files, S)
        nsl = len(ss.slices)
        for variant in range(4 if not thorough else 6):
            base = BASES[(k * 7 + variant) % len(BASES)] if variant else "arc"
            expset = rng.choice([[0], [0, 1, 2], [5, 17, 1000], [2999], [1, 3], list(range(7)), [65535] if thorough else [300, 2]])
            lay = make_layout(rng, ss, base, expset, rng.randrange(1, 5), fancy=variant > 0)
            index = P.DIR + "/" + base + ".par2"
            data = {P.DIR + "/" + n: d for n, d in files}
            nexp = len(set(expset))
            # damage: lose up to nexp slices worth of data
            dmg = rng.choice(["none", "delete", "delete", "flip", "swap"])
            fs = dict(data)
            if dmg == "delete":
                n0 = rng.choice(names); del fs[P.DIR + "/" + n0]
            elif dmg == "flip":
                n0 = rng.choice(names); p = P.DIR + "/" + n0; dd = fs[p]
                fs[p] = bytes([dd[0] ^ 1]) + dd[1:]
            elif dmg == "swap" and len(names) >= 2:
                a, b = names[0], names[1]
                fs[P.DIR + "/" + a], fs[P.DIR + "/" + b] = fs[P.DIR + "/" + b], fs[P.DIR + "/" + a]
            fs.update(lay)
            fs[P.DIR + "/unrelated.par2.bak"] = b"zzz"
            special = any(ch in base for ch in "[]*?\\{") or base != base.lower()
            mode = "real" if (special or rng.random() < 0.3) else "mem"
            dirs = L.parent_dirs([P.DIR + "/" + n for n in names])
            cases.append({"ss": ss, "files": dict(files), "fs": fs, "index": index, "base": base, "exps": sorted(set(expset)),
                          "dmg": dmg, "mode": mode, "S": S,
                          "vline": L.line_verify("p2", mode, index, 1, fs, dirs=dirs),
                          "rline": L.line_repair("p2", mode, index, rng.random() < 0.5, rng.choice([1, 2]), fs, dirs=dirs)})
    vi, vm = P.run_both(ctx, vh, model, [c["vline"] for c in cases])
    ri, rm = P.run_both(ctx, vh, model, [c["rline"] for c in cases])
    for c, a, b, x, y in zip(cases, vi, vm, ri, rm):
        dist["base"][c["base"]] = dist["base"].get(c["base"], 0) + 1
        dist["exps"][str(c["exps"])] = dist["exps"].get(str(c["exps"]), 0) + 1
        dist["mode"][c["mode"]] = dist["mode"].get(c["mode"], 0) + 1
        dist["damage"][c["dmg"]] = dist["damage"].get(c["dmg"], 0) + 1
        ctx.count("lay|" + L.hx(L.md5(c["vline"].encode())), True)
        pa, px, py = L.parse_result(a), L.parse_result(x), L.parse_result(y)
        ca = P.counts_of(pa)
        replay = {"lines": [c["vline"], c["rline"]], "mode": c["mode"], "base": c["base"], "exps": c["exps"], "damage": c["dmg"],
                  "impl": [a[:1200], x[:1200]], "model": [b[:1200], y[:1200]], "class": {"base": c["base"]}}
        if pa["res"] in ("panic", "crash") or px["res"] in ("panic", "crash"):
            report("crash on a conformant layout (base %r, exponents %s)" % (c["base"], c["exps"]), replay); continue
        if pa["res"] != "ok" or ca is None:
            report("Verify rejects a conformant set (base %r, exponents %s): %s" % (c["base"], c["exps"], a[:100]), replay); continue
        if ca["pusable"] != len(c["exps"]):
            report("%d intact recovery blocks lie beside the index (base name %r, exponents %s) but %d are found" %
                   (len(c["exps"]), c["base"], c["exps"], ca["pusable"]), replay); continue
        # the counts and the outcome judged WITHOUT the model (from the writer's own knowledge of the set): an undamaged set is
        # clean; a deleted or flipped file costs at most its own slices; repaired = what was damaged
        nslices = sum((len(d_) + c["S"] - 1) // c["S"] for d_ in c["files"].values()) if c.get("S") else None
        damaged_names = [n_ for n_, d_ in c["files"].items() if c["fs"].get(P.DIR + "/" + n_) != d_]
        if nslices is not None:
            if ca["usable"] + ca["unusable"] != nslices:
                report("usable + unusable = %d, the set has %d slices (base %r)" % (ca["usable"] + ca["unusable"], nslices, c["base"]), replay); continue
            if c["dmg"] == "none" and (ca["needed"] != 0 or ca["unusable"] != 0):
                report("an undamaged conformant set does not verify clean (needed=%d, unusable=%d, base %r, exponents %s)" % (ca["needed"], ca["unusable"], c["base"], c["exps"]), replay); continue
            worst = sum((len(c["files"][n_]) + c["S"] - 1) // c["S"] for n_ in damaged_names)
            if ca["unusable"] > worst:
                report("%d slices counted unusable, the damaged files %s have %d slices in all" % (ca["unusable"], damaged_names, worst), replay); continue
            if damaged_names and ca["needed"] != 1:
                report("files %s differ from the protected content but Verify reports no repair needed" % damaged_names, replay); continue
            # (the property quantifies over exponents "below a few thousand"; the thorough tier's exponent 65535 is outside it -
            # gopar's coder has at most 65535 rows, numbered 0..65534 - and is judged against the model only)
            if worst <= len(c["exps"]) and max(c["exps"]) < 4000 and px["res"] not in ("ok", "err:singular"):
                report("Repair failed (%s) although the damaged files have %d slices and %d intact blocks lie beside the index (base %r, exponents %s)" %
                       (px["res"], worst, len(c["exps"]), c["base"], c["exps"]), replay); continue
            if px["res"] == "ok" and sorted(px["repaired"]) != sorted(P.DIR + "/" + n_ for n_ in damaged_names):
                report("Repair lists %s, the damaged files are %s" % (sorted(px["repaired"]), damaged_names), replay); continue
        # repair: when unusable <= blocks the files must come back (or the PAR2 singular error), never wrong bytes
        after = L.apply_changed(c["fs"], px["changed"])
        wrong = [n for n, d in c["files"].items() if after.get(P.DIR + "/" + n) != d]
        if px["res"] == "ok" and wrong:
            report("Repair succeeded but files are wrong on a conformant layout: %s" % wrong, replay); continue
        if ca["unusable"] <= ca["pusable"] and py["res"] == "ok" and px["res"] != "ok":
            report("Repair failed (%s) although %d unusable slices <= %d blocks (base %r, exponents %s)" %
                   (px["res"], ca["unusable"], ca["pusable"], c["base"], c["exps"]), replay); continue
        if L.canon(a, c["mode"]) != L.canon(b, c["mode"]):
            report("Verify differs from the model on a conformant layout: impl=%s model=%s" % (a.split(" trace=")[0], b.split(" trace=")[0]), replay, nf=True)
        elif L.canon(x, c["mode"]) != L.canon(y, c["mode"]):
            report("Repair differs from the model on a conformant layout: impl=%s model=%s" % (x.split(" trace=")[0], y.split(" trace=")[0]), replay, nf=True)
        if len(ctx.samples) < 5 and c["base"] != "arc":
            ctx.sample({"base": c["base"], "exponents": c["exps"], "files": sorted(p for p in c["fs"] if p.endswith(".par2")),
                        "damage": c["dmg"], "verify": a.split(" trace=")[0], "repair": x.split(" trace=")[0]})
    return ctx.finish(
        "proof",
        rule="sets written by an independent Python PAR 2.0 writer (checks/par2writer.py, from the specification; byte-identical to gopar in the canonical layout) in free layouts: permuted and duplicated packets, foreign-set and unknown-type packets interleaved, exponent subsets {0},{0,1,2},{5,17,1000},{2999},{1,3},{0..6},{300,2}, 1-4 recovery files named base.<anything>.par2 (spaces, dots, glob metacharacters), base names with [ ] * ? \\ { and spaces (those on a real directory), names in sub-directories; x damage none/delete/flip/swap; every case counts (all layouts differ from gopar's own)",
        extra={"input_distribution": dist,
               "predicate": "judged without the model: usable+unusable = slices of the set; undamaged => clean; unusable <= slices of the damaged files; damaged => repair needed; damaged slices <= blocks => Repair succeeds (or singular) and lists exactly the damaged files; and: Verify accepts; usable recovery blocks = number of distinct exponents present; Repair never succeeds with wrong bytes; unusable <= blocks => Repair succeeds (or the model's singular verdict)",
               "compared": "counts, outcome class, repaired paths, changed files (and I/O trace in memory) vs the extracted model"})
