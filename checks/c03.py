"""C03 — PAR2 Verify is truthful: clean means intact; counts sound and complete."""
import json
from . import p2lib as L
from . import par2common as P
from . import c01


def slices(ps):
    out = []
    for n, d in ps.files.items():
        for i in range(0, len(d), ps.slice):
            s = d[i:i + ps.slice]
            out.append((n, i, s + bytes(ps.slice - len(s))))
    return out


def present_somewhere(ps, fs, sl):
    """is the padded slice present as a window (zero padding only past end of file) in a surviving protected file?"""
    for n in ps.files:
        d = fs.get(ps.paths[n])
        if d is None:
            continue
        dd = d + bytes(ps.slice - 1)
        start = 0
        while True:
            k = dd.find(sl, start)
            if k < 0:
                break
            if k < len(d):
                return True
            start = k + 1
    return False


def run(ctx):
    ctx.check_props()
    model = ctx.build_model()
    vh = ctx.build_harness()
    if ctx.replay:
        r = json.load(open(ctx.replay))
        impl, mod = P.run_both(ctx, vh, model, r["lines"])
        for l, i, m in zip(r["lines"], impl, mod):
            print("impl :", i[:300]); print("model:", m[:300])
            if i != m:
                ctx.violation("replay: implementation and model differ", {"lines": [l], "impl": i[:3000], "model": m[:3000]})
        return ctx.finish("proof", rule="replay")
    rep = [0]

    def report(msg, obj, nf=False):
        if rep[0] < 6:
            rep[0] += 1
            ctx.violation(msg, obj, no_failing_input=nf)

    cases = c01.build_cases(ctx, vh, model, nsets=45, real_frac=0.0, volume_damage=True)
    # the separating patterns, for every file of every set: slices all findable, files still wrong
    rng = ctx.rng
    seen_sets = []
    for c in cases:
        if c["set"] not in seen_sets:
            seen_sets.append(c["set"])
    extra_cases = []
    # files larger than 16 KiB: the 16k hash covers only the head, so where the later slices lie must be checked by other means
    bigsets = []
    for S in ((4096,) if ctx.tier != "thorough" else (4096, 2048, 8192)):
        big = L.gen_content(rng, "random", 16384 + 2 * S + rng.choice([0, 100]))
        twin = big[:16384] + L.gen_content(rng, "random", len(big) - 16384)
        bs = P.PSet({"big.bin": big, "twin.bin": twin, "s": b"small"}, S, 2, g=2, tag="big")
        bigsets.append(bs)
    P.create_all(ctx, vh, model, bigsets)
    for bs in bigsets:
        if bs.created is None:
            report("Create failed on a set with files above 16 KiB", {"lines": [bs.create_line("mem")], "class": {"pattern": "big-create"}})
            continue
        S = bs.slice
        k = 16384 // S
        for n in ("big.bin", "twin.bin"):
            d = bs.created[bs.paths[n]]
            nd = d[:k * S] + d[(k + 1) * S:(k + 2) * S] + d[k * S:(k + 1) * S] + d[(k + 2) * S:]
            fs = dict(bs.created); fs[bs.paths[n]] = nd
            extra_cases.append({"set": bs, "desc": "high-slices-exchanged:" + n, "fs": fs, "vline": L.line_verify("p2", "mem", bs.index, 1, fs)})
            nd = d[:k * S] + d[(k + 1) * S:(k + 2) * S] + d[(k + 1) * S:]
            fs = dict(bs.created); fs[bs.paths[n]] = nd
            extra_cases.append({"set": bs, "desc": "high-slice-duplicated:" + n, "fs": fs, "vline": L.line_verify("p2", "mem", bs.index, 1, fs)})
        seen_sets.append(bs)
    for ps in seen_sets:
        if ps.created is None or getattr(ps, "rowswap", False):
            continue
        names = list(ps.files)
        for n in names:
            p = ps.paths[n]
            d = ps.created[p]
            pats = [("front-insert", bytes([rng.randrange(256)]) * rng.choice([1, ps.slice])+ d),
                    ("append-garbage", d + L.gen_content(rng, "random", rng.choice([1, 3, ps.slice])))]
            if d.endswith(b"\0") and d.rstrip(b"\0"):
                pats.append(("trailing-zeros-lost", d.rstrip(b"\0")))
            if len(d) % ps.slice:
                pats.append(("trailing-zero-added", d + b"\0"))
            if ps.slice >= 8 and len(d) >= ps.slice:
                # corruption that keeps the slice's CRC-32 (xor of a message and its own CRC register): only MD5 tells
                import zlib
                m_ = bytes([rng.randrange(1, 256), 0, 0, 0])
                r_ = zlib.crc32(m_) ^ zlib.crc32(bytes(4))
                pat = m_ + r_.to_bytes(4, "little") + bytes(ps.slice - 8)
                k0 = ps.slice * rng.randrange(len(d) // ps.slice)
                nd_ = d[:k0] + bytes(x ^ y for x, y in zip(d[k0:k0 + ps.slice], pat)) + d[k0 + ps.slice:]
                assert zlib.crc32(nd_[k0:k0 + ps.slice]) == zlib.crc32(d[k0:k0 + ps.slice])
                pats.append(("crc-preserving-corruption", nd_))
            for desc, nd in pats:
                fs = dict(ps.created); fs[p] = nd
                extra_cases.append({"set": ps, "desc": desc + ":" + n, "fs": fs, "vline": L.line_verify("p2", "mem", ps.index, 1, fs)})
        if len(names) >= 2:
            a, b = names[0], names[1]
            fs = dict(ps.created); fs[ps.paths[a]], fs[ps.paths[b]] = fs[ps.paths[b]], fs[ps.paths[a]]
            extra_cases.append({"set": ps, "desc": "swap:%s,%s" % (a, b), "fs": fs, "vline": L.line_verify("p2", "mem", ps.index, 1, fs)})
        extra_cases.append({"set": ps, "desc": "intact", "fs": dict(ps.created), "vline": L.line_verify("p2", "mem", ps.index, 1, ps.created)})
    # recovery files that begin with packets of ANOTHER recovery set (two volumes concatenated, a legal layout):
    # the blocks of this set behind them still count
    withvols = [ps for ps in seen_sets if ps.created is not None and ps.volumes and not getattr(ps, "rowswap", False)]
    for k, ps in enumerate(withvols[:(6 if ctx.tier != "thorough" else 30)]):
        other = withvols[(k + 1) % len(withvols)]
        if other is ps or other.created[other.index] == ps.created[ps.index]:
            continue
        v = ps.volumes[k % len(ps.volumes)]
        fs = dict(ps.created); fs[v] = other.created[other.volumes[0]] + ps.created[v]
        extra_cases.append({"set": ps, "desc": "foreign-packets-first:" + v.rsplit("/", 1)[1], "fs": fs, "vline": L.line_verify("p2", "mem", ps.index, 1, fs)})
        fs = dict(ps.created); fs[v] = ps.created[v] + other.created[other.volumes[0]] + ps.created[v]
        extra_cases.append({"set": ps, "desc": "foreign-packets-between:" + v.rsplit("/", 1)[1], "fs": fs, "vline": L.line_verify("p2", "mem", ps.index, 1, fs)})
    # the same recovery blocks twice beside the index (a backup copy of a volume; two volumes concatenated into one more
    # file): a block is usable ONCE however many copies of its packet exist
    for k, ps in enumerate(withvols[:(8 if ctx.tier != "thorough" else 40)]):
        v = ps.volumes[k % len(ps.volumes)]
        base_ = ps.index[:-len(".par2")]
        fs = dict(ps.created); fs[base_ + ".vol-backup copy.par2"] = ps.created[v]
        extra_cases.append({"set": ps, "desc": "volume-copied:" + v.rsplit("/", 1)[1], "fs": fs, "vline": L.line_verify("p2", "mem", ps.index, 1, fs)})
        fs = dict(ps.created); fs[base_ + ".all.par2"] = b"".join(ps.created[x] for x in ps.volumes)
        victim = list(ps.paths.values())[k % len(ps.paths)]
        del fs[victim]
        extra_cases.append({"set": ps, "desc": "volumes-concatenated-copy+delete", "fs": fs, "vline": L.line_verify("p2", "mem", ps.index, 1, fs)})
    # on a REAL directory (the listing of recovery files is the operating system's, not the in-memory one), index names with
    # glob metacharacters, dots and spaces: the blocks beside the index are found by literal prefix and suffix
    rsets = [P.PSet({"a.dat": L.gen_content(rng, "random", 21), "b": L.gen_content(rng, "random", 9)}, 4, 3, g=1, base=b_, tag="real:" + b_)
             for b_ in ("backup[2019]", "we*ird", "q?x", "photos.2022", "a b", "br{ace}", "back\\slash")]
    P.create_all(ctx, vh, model, rsets)
    for ps in rsets:
        if ps.created is None:
            report("Create failed for the index name %r" % ps.base, {"lines": [ps.create_line("mem")], "class": {"pattern": "real-names"}}); continue
        fs = dict(ps.created); del fs[ps.paths["b"]]
        extra_cases.append({"set": ps, "desc": "real-directory:" + ps.base, "fs": fs, "real": True,
                            "vline": L.line_verify("p2", "real", ps.index, 1, fs, dirs=[P.DIR])})
    allc = [c for c in cases] + extra_cases
    vi, vm = P.run_both(ctx, vh, model, [c["vline"] for c in allc])
    dist = {"pattern": {}, "clean_reports": 0, "clean_but_damaged": 0, "all_slices_usable_but_files_wrong": 0}
    for c, a, b in zip(allc, vi, vm):
        ps = c["set"]
        kind = c["desc"].split(":")[0]
        dist["pattern"][kind] = dist["pattern"].get(kind, 0) + 1
        pa = L.parse_result(a)
        ca = P.counts_of(pa)
        wrong = P.originals_ok(ps, c["fs"])
        ctx.count("v|" + L.hx(L.md5(c["vline"].encode())), bool(wrong))
        replay = {"lines": [c["vline"]], "desc": c["desc"], "impl": a[:1500], "model": b[:1500], "class": {"pattern": kind}}
        if pa["res"] in ("panic", "crash"):
            report("Verify crashed (%s)" % c["desc"], replay); continue
        if ca is None and c["fs"].get(ps.index) == ps.created[ps.index] and pa["res"].startswith("err"):
            report("Verify returns an error (%s) although the index file is intact: damaged data or recovery files must show in the counts (%s)" % (pa["res"], c["desc"]), replay)
            continue
        if ca is None:
            if a != b:
                report("Verify outcome differs from the model (%s): impl=%s model=%s" % (c["desc"], a[:80], b[:80]), replay, nf=True)
            continue
        if pa["changed"]:
            report("Verify modified files (%s)" % c["desc"], replay); continue
        # (a) clean means intact
        if ca["needed"] == 0:
            dist["clean_reports"] += 1
            if wrong:
                dist["clean_but_damaged"] += 1
                report("Verify reports that no repair is needed although %s differ from the protected content (%s)" % (wrong, c["desc"]), replay)
                continue
        if ca["unusable"] == 0 and wrong:
            dist["all_slices_usable_but_files_wrong"] += 1
        # (b) soundness / completeness against content-based oracles
        sl = slices(ps)
        present = sum(1 for (_, _, s) in sl if present_somewhere(ps, c["fs"], s))
        intact = sum((len(ps.files[n]) + ps.slice - 1) // ps.slice for n in ps.files if c["fs"].get(ps.paths[n]) == ps.files[n])
        if ca["usable"] > present:
            report("%d slices counted usable but only %d are present anywhere in the surviving protected files (%s)" % (ca["usable"], present, c["desc"]), replay); continue
        if ca["usable"] < intact:
            report("%d slices belong to undamaged files but only %d are counted usable (%s)" % (intact, ca["usable"], c["desc"]), replay); continue
        truth = P.independent_usable(ps, c["fs"])
        if truth is not None:
            dist["independent_count_cases"] = dist.get("independent_count_cases", 0) + 1
            if ca["usable"] != truth:
                report("%d slices are present contiguously and without overlap in the surviving protected files (counted from the originals alone) but Verify counts %d usable (%s)" % (truth, ca["usable"], c["desc"]), replay); continue
        if ca["usable"] + ca["unusable"] != len(sl):
            report("usable + unusable = %d but the set has %d slices (%s)" % (ca["usable"] + ca["unusable"], len(sl), c["desc"]), replay); continue
        # (c) usable recovery blocks = blocks in the surviving (undamaged) recovery files
        if True:
            blocks = P.intact_block_count(ps, c["fs"])       # complete recovery packets still present in any <base>.*.par2 file
            if ca["pusable"] != blocks:
                report("%d recovery blocks lie beside the index but %d are counted usable (%s)" % (blocks, ca["pusable"], c["desc"]), replay); continue
        # (d) possible iff unusable <= usable blocks
        if (ca["possible"] == 1) != (ca["unusable"] <= ca["pusable"]):
            report("repair possible = %d with %d unusable slices and %d usable blocks (%s)" % (ca["possible"], ca["unusable"], ca["pusable"], c["desc"]), replay); continue
        if (L.canon(a, "real") != L.canon(b, "real")) if c.get("real") else (a != b):
            report("Verify differs from the proved model (%s): impl=%s model=%s" % (c["desc"], a.split(" trace=")[0], b.split(" trace=")[0]), replay, nf=True)
        if wrong and ca["unusable"] == 0 and len(ctx.samples) < 5:
            ctx.sample({"pattern": c["desc"], "verify": a.split(" trace=")[0]})
    # two sets with ONE recovery-set id (same names, lengths and first 16 KiB, different content behind), verified one after the
    # other IN ONE PROCESS: what was learned about the first must not be applied to the second
    tw_head = L.gen_content(rng, "random", 16384)
    twA = P.PSet({"big.bin": tw_head + L.gen_content(rng, "random", 4096 + 7), "small.txt": b"hello world"}, 4096, 2, g=1, tag="same-id-A")
    twB = P.PSet({"big.bin": tw_head + L.gen_content(rng, "random", 4096 + 7), "small.txt": b"hello world"}, 4096, 2, g=1, tag="same-id-B")
    P.create_all(ctx, vh, model, [twA, twB])
    if twA.created is not None and twB.created is not None:
        seq_lines = [L.line_verify("p2", "mem", twA.index, 1, twA.created), L.line_verify("p2", "mem", twB.index, 1, twB.created),
                     L.line_verify("p2", "mem", twA.index, 1, twA.created)]
        seq_res = ctx.run_lines(vh, seq_lines, shards=1)
        for line_, res_ in zip(seq_lines, seq_res):
            cs_ = P.counts_of(L.parse_result(res_))
            ctx.count("same-set-id|" + L.hx(L.md5(line_.encode())), True)
            dist["pattern"]["same-set-id-sequence"] = dist["pattern"].get("same-set-id-sequence", 0) + 1
            if cs_ is None or cs_["needed"] != 0 or cs_["unusable"] != 0:
                report("an intact set does not verify clean when a set with the same recovery-set id was verified before it in the same process: %s" % res_.split(" trace=")[0],
                       {"lines": seq_lines, "impl": res_[:800], "class": {"pattern": "same-set-id-sequence"}})
    # a recovery file that is a SYMBOLIC LINK to an intact volume kept elsewhere in the directory (real directory): it is a
    # file like any other - same counts as with the plain file
    sl_lines, sl_meta = [], []
    for ps in rsets[:3]:
        if ps.created is None or not ps.volumes:
            continue
        fs = dict(ps.created); del fs[ps.paths["b"]]
        v = ps.volumes[0]
        fs2 = dict(fs); fs2[P.DIR + "/store-0001.bin"] = fs[v]; fs2[v] = b"VHSYMLINK:store-0001.bin"
        sl_lines += [L.line_verify("p2", "real", ps.index, 1, fs, dirs=[P.DIR]), L.line_verify("p2", "real", ps.index, 1, fs2, dirs=[P.DIR])]
        sl_meta.append(ps)
    sl_res = ctx.run_lines(vh, sl_lines)
    for k, ps in enumerate(sl_meta):
        plain, linked = L.parse_result(sl_res[2 * k]), L.parse_result(sl_res[2 * k + 1])
        ctx.count("symlinked-volume|" + ps.base, True)
        dist["pattern"]["symlinked-volume"] = dist["pattern"].get("symlinked-volume", 0) + 1
        if plain.get("counts") != linked.get("counts") or linked["res"] != plain["res"]:
            report("a recovery file that is a symbolic link to an intact volume is not treated like the file itself: counts %s with the link, %s with the plain file (base %r)" %
                   (linked.get("counts"), plain.get("counts"), ps.base), {"lines": sl_lines[2 * k:2 * k + 2], "mode": "real", "impl": sl_res[2 * k + 1][:800], "class": {"pattern": "symlinked-volume"}})
    return ctx.finish(
        "proof",
        rule="archive states from the C01 generator (all damage kinds, pairs, dropped recovery files) plus, for every file of every set, the patterns that leave every slice findable while the file is wrong (bytes inserted at the front, garbage appended, trailing zero bytes lost or added, two files swapped), the intact state, recovery files with foreign packets first/between, and copies of recovery files beside the originals (a block counts once); non-trivial = some protected file differs from its original",
        extra={"input_distribution": dist,
               "predicate": "needed=false => all files byte-identical; usable <= slices present anywhere in surviving files (content search); usable >= slices of undamaged files; usable+unusable = total; usable blocks = blocks in surviving recovery files; possible <=> unusable <= usable blocks",
               "compared": "all counts, needed/possible, I/O trace vs the extracted model (whose scan is proved sound and complete in Props/C16.v)"})
