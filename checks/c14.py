"""C14 — Repair converges and is idempotent over any history: the reachable state graph explored to closure."""
import itertools
import json
from . import p2lib as L
from . import par2common as P
from . import par1common as P1
from . import c04


def variants(rng, name, orig, other):
    """the finite set of contents a damage/restore event can give a protected file"""
    v = {"orig": orig, "absent": None}
    v["flip"] = bytes([orig[0] ^ 0x40]) + orig[1:]
    v["prepend"] = b"Z" + orig
    v["zeroappended"] = orig + b"\0"             # every slice still in place (the zero is the last slice's padding) - only the length is wrong
    if len(orig) > 1:
        v["truncate"] = orig[:-1]
    if other is not None:
        v["other"] = other                      # another protected file's content (swap / rename among themselves)
    if len(orig) > 16384:
        v["fliplate"] = orig[:-1] + bytes([orig[-1] ^ 1])     # damage beyond the first 16 KiB, length unchanged: only the full hash sees it
    return v


def run(ctx):
    ctx.check_props()
    model = ctx.build_model()
    vh = ctx.build_harness()
    if ctx.replay:
        r = json.load(open(ctx.replay))
        impl = ctx.run_lines(vh, r["lines"]); mod = ctx.run_lines(model, r["lines"])
        for l, i, m in zip(r["lines"], impl, mod):
            print("impl :", i[:300]); print("model:", m[:300])
            if L.canon(i, "mem") != L.canon(m, "mem"):
                ctx.violation("replay: implementation and model differ", {"lines": [l]})
        return ctx.finish("proof", rule="replay")
    rng = ctx.rng
    thorough = ctx.tier == "thorough"
    rep = [0]

    def report(msg, obj, nf=False):
        if rep[0] < 6:
            rep[0] += 1
            ctx.violation(msg, obj, no_failing_input=nf)

    graphs = []
    # ---------------- PAR2: 2 files (thorough: also 3), 2 recovery files ----------------
    # a.dat's first two slices have the same content (one checksum pair registered at two positions): idempotence must
    # hold for such sets too
    dup_ = L.gen_content(rng, "random", 4)
    p2 = [P.PSet({"a.dat": dup_ + dup_ + L.gen_content(rng, "random", 1), "b.dat": L.gen_content(rng, "random", 6)}, 4, 3, g=1)]
    if thorough:
        p2.append(P.PSet({"a": L.gen_content(rng, "random", 5), "b": L.gen_content(rng, "random", 8), "c": L.gen_content(rng, "lowent", 4)}, 4, 2, g=1))
    for ps in p2:
        ps.bystanders = {}
    P.create_all(ctx, vh, model, p2)
    for ps in p2:
        if ps.created is None:
            continue
        names = list(ps.files)
        var = {n: variants(rng, n, ps.files[n], ps.files[names[(k + 1) % len(names)]]) for k, n in enumerate(names)}
        graphs.append(("par2", ps, names, var, ps.volumes, ps.index,
                       lambda fs, ps=ps: L.line_verify("p2", "mem", ps.index, 1, fs),
                       lambda fs, dbl, ps=ps: L.line_repair("p2", "mem", ps.index, dbl, 1, fs),
                       {ps.paths[n]: ps.files[n] for n in names}, ps.created, ps.paths))
    # ---------------- PAR1: 3 files, 2 volumes ----------------
    s1 = c04.Set1([("p.dat", L.gen_content(rng, "random", 16384 + 130)), ("q.dat", L.gen_content(rng, "random", 10)), ("r", L.gen_content(rng, "random", 3))], 2)
    c04.create_all(ctx, vh, model, [s1], lambda *a, **k: None)
    if s1.created is not None:
        names = [n for n, _ in s1.files]
        datas = dict(s1.files)
        var = {n: {k: v for k, v in variants(rng, n, datas[n], None).items() if k in ("orig", "absent", "flip", "truncate", "fliplate") or (k == "prepend" and n == "q.dat")} for n in names}     # q.dat also LONGER than its original
        graphs.append(("par1", s1, names, var, s1.volumes, s1.index,
                       lambda fs, s=s1: P1.line_verify("mem", s.index, True, fs),
                       lambda fs, dbl, s=s1: P1.line_repair("mem", s.index, dbl, fs),
                       {s1.paths[n]: datas[n] for n in names}, s1.created, s1.paths))
    dist = {"states": 0, "transitions": 0, "repair_ok": 0, "repair_failed": 0, "converged_after_volumes_return": 0, "formats": {}}
    for fmt, owner, names, var, vols, index, vline, rline, originals, created, paths in graphs:
        # the state space closed under the event alphabet: every file in any of its variants x every subset of recovery files present
        keys = [list(var[n]) for n in names]
        volsets = [tuple(s) for r_ in range(len(vols) + 1) for s in itertools.combinations(vols, r_)]
        states = []
        for combo in itertools.product(*keys):
            for vs in volsets:
                fs = {index: created[index]}
                for n, k in zip(names, combo):
                    if var[n][k] is not None:
                        fs[paths[n]] = var[n][k]
                for v in vs:
                    fs[v] = created[v]
                states.append((combo, vs, fs))
        dist["formats"][fmt] = len(states)
        dist["states"] += len(states)
        idx = {(c, v): k for k, (c, v, _) in enumerate(states)}
        vl = [vline(fs) for _, _, fs in states]
        r0 = [rline(fs, False) for _, _, fs in states]
        r1 = [rline(fs, True) for _, _, fs in states]
        vi = ctx.run_lines(vh, vl); vm = ctx.run_lines(model, vl)
        ri0 = ctx.run_lines(vh, r0); rm0 = ctx.run_lines(model, r0)
        ri1 = ctx.run_lines(vh, r1); rm1 = ctx.run_lines(model, r1)

        def classify(fs):
            """state key of a directory content, or None when it left the closed space"""
            combo = []
            for n in names:
                d = fs.get(paths[n])
                hit = [k for k, v in var[n].items() if v == d]
                if not hit:
                    return None
                combo.append(hit[0])
            vs = tuple(v for v in vols if v in fs)
            return (tuple(combo), vs)

        verify_clean = {}
        for k, ((combo, vs, fs), a, b) in enumerate(zip(states, vi, vm)):
            pa = L.parse_result(a)
            dist["transitions"] += 1
            ctx.count("%s|%s|v|%s|%s" % (fmt, id(owner), combo, len(vs)), any(c != "orig" for c in combo))
            replay = {"lines": [vl[k]], "format": fmt, "state": [list(combo), len(vs)], "impl": a[:1000], "model": b[:1000], "class": {"op": "verify"}}
            if pa["changed"]:
                report("Verify changed the state (%s %s)" % (fmt, combo), replay); continue
            if L.canon(a, "mem") != L.canon(b, "mem"):
                report("Verify differs from the model in state %s/%d volumes (%s)" % (combo, len(vs), fmt), replay, True)
            c = pa.get("counts")
            verify_clean[k] = bool(c) and pa["res"] == "ok" and c[5] == "0"
        for dbl, ri, rm, rl in ((False, ri0, rm0, r0), (True, ri1, rm1, r1)):
            for k, ((combo, vs, fs), x, y) in enumerate(zip(states, ri, rm)):
                px = L.parse_result(x)
                dist["transitions"] += 1
                ctx.count("%s|%s|r%d|%s|%s" % (fmt, id(owner), dbl, combo, len(vs)), any(c != "orig" for c in combo))
                replay = {"lines": [rl[k]], "format": fmt, "state": [list(combo), len(vs)], "doublecheck": dbl, "impl": x[:1000], "model": y[:1000], "class": {"op": "repair"}}
                if px["res"] in ("panic", "crash"):
                    report("Repair crashed in state %s/%d volumes (%s)" % (combo, len(vs), fmt), replay); continue
                after = L.apply_changed(fs, px["changed"])
                # a Repair, failed or not, never increases the damage: each file keeps its content or regains its original
                worse = [n for n in names if after.get(paths[n]) != fs.get(paths[n]) and after.get(paths[n]) != originals[paths[n]]]
                other = [p for p in px["changed"] if p not in originals]
                if worse or other:
                    report("Repair increased the damage in state %s/%d volumes (%s): %s" % (combo, len(vs), fmt, worse or other), replay); continue
                tgt = classify(after)
                if px["res"] == "ok":
                    dist["repair_ok"] += 1
                    bad = [n for n in names if after.get(paths[n]) != originals[paths[n]]]
                    if bad:
                        report("a successful Repair left %s damaged (state %s/%d volumes, %s)" % (bad, combo, len(vs), fmt), replay); continue
                    t = idx[tgt]
                    if not verify_clean.get(t, False):
                        report("after a successful Repair (state %s/%d volumes, %s) Verify is not clean" % (combo, len(vs), fmt), replay); continue
                    # a further Repair rewrites nothing
                    again = L.parse_result(ri0[t])
                    if again["changed"] or again["repaired"] or again["res"] != "ok":
                        report("a Repair right after a successful Repair rewrote %s (result %s) (%s)" % (sorted(again["changed"]) or again["repaired"], again["res"], fmt), replay); continue
                else:
                    dist["repair_failed"] += 1
                if L.canon(x, "mem") != L.canon(y, "mem"):
                    report("Repair differs from the model in state %s/%d volumes (%s): impl=%s model=%s" % (combo, len(vs), fmt, x.split(" trace=")[0], y.split(" trace=")[0]), replay, True)
                    continue
                # convergence: when all recovery files have arrived, one more Repair restores everything that capacity allows
                if tgt is not None:
                    full = idx.get((tgt[0], tuple(vols)))
                    if full is not None:
                        pf, pm_ = L.parse_result(ri0[full]), L.parse_result(rm0[full])
                        # capacity judged without the model where that is unambiguous: PAR1 works on whole files, so with all
                        # volumes back Repair MUST succeed whenever at most that many files are not their originals
                        nbad_ = sum(1 for n in names if states[full][2].get(paths[n]) != originals[paths[n]])
                        if pm_["res"] == "ok" or (fmt == "par1" and nbad_ <= len(vols)):
                            aft2 = L.apply_changed(states[full][2], pf["changed"])
                            if pf["res"] != "ok" or any(aft2.get(paths[n]) != originals[paths[n]] for n in names):
                                report("with all recovery files back, Repair does not converge to the originals from state %s (%s)" % (tgt[0], fmt), replay); continue
                            dist["converged_after_volumes_return"] += 1
        # ---- the same histories on a REAL directory (defaultFileIO: what a write leaves on disk, e.g. of a longer file) ----
        full_states = [(combo, vs, fs) for combo, vs, fs in states if len(vs) == len(vols)]
        if not thorough:
            full_states = [st_ for k_, st_ in enumerate(full_states) if k_ % 2 == 0 or "prepend" in st_[0]]
        dirs = L.parent_dirs(paths.values())
        if fmt == "par2":
            rr = [L.line_repair("p2", "real", index, False, 1, fs, dirs=dirs) for _, _, fs in full_states]
        else:
            rr = [P1.line_repair("real", index, False, fs, dirs=dirs) for _, _, fs in full_states]
        rri = ctx.run_lines(vh, rr); rrm = ctx.run_lines(model, rr)
        second = []
        for (combo, vs, fs), line, x, y in zip(full_states, rr, rri, rrm):
            px = L.parse_result(x)
            dist["real_directory_repairs"] = dist.get("real_directory_repairs", 0) + 1
            ctx.count("%s|%s|real|%s" % (fmt, id(owner), combo), any(c != "orig" for c in combo))
            replay = {"lines": [line], "format": fmt, "state": [list(combo), len(vs)], "impl": x[:1000], "model": y[:1000], "class": {"op": "repair-real"}}
            if px["res"] in ("panic", "crash"):
                report("Repair crashed on a real directory in state %s (%s)" % (combo, fmt), replay); continue
            after = L.apply_changed(fs, px["changed"])
            if px["res"] == "ok":
                bad = [n for n in names if after.get(paths[n]) != originals[paths[n]]]
                if bad:
                    report("a successful Repair on a real directory left %s different from the original (state %s, %s)" % (bad, combo, fmt), replay); continue
            else:
                worse = [n for n in names if after.get(paths[n]) != fs.get(paths[n]) and after.get(paths[n]) != originals[paths[n]]]
                if worse:
                    report("a failed Repair on a real directory increased the damage: %s (state %s, %s)" % (worse, combo, fmt), replay); continue
            if L.canon(x, "real") != L.canon(y, "real"):
                report("Repair on a real directory differs from the model in state %s (%s): impl=%s model=%s" % (combo, fmt, x.split(" trace=")[0], y.split(" trace=")[0]), replay, True); continue
            second.append((combo, after))
        if fmt == "par2":
            v2 = [L.line_verify("p2", "real", index, 1, fs2, dirs=dirs) for _, fs2 in second]
            r2 = [L.line_repair("p2", "real", index, True, 1, fs2, dirs=dirs) for _, fs2 in second]
        else:
            v2 = [P1.line_verify("real", index, True, fs2, dirs=dirs) for _, fs2 in second]
            r2 = [P1.line_repair("real", index, True, fs2, dirs=dirs) for _, fs2 in second]
        v2i = ctx.run_lines(vh, v2); r2i = ctx.run_lines(vh, r2)
        for (combo, fs2), lv, lr, a2, x2 in zip(second, v2, r2, v2i, r2i):
            pa2, px2 = L.parse_result(a2), L.parse_result(x2)
            ctx.count("%s|%s|real2|%s" % (fmt, id(owner), combo), True)
            intact = all(fs2.get(paths[n]) == originals[paths[n]] for n in names)
            replay = {"lines": [lv, lr], "format": fmt, "state": [list(combo)], "impl": [a2[:800], x2[:800]], "class": {"op": "second-real"}}
            if pa2["changed"] or (intact and (px2["changed"] or px2["repaired"])):
                report("on a real directory, after a Repair from state %s (%s): Verify changed files or a further Repair rewrote %s" % (combo, fmt, sorted(px2["changed"]) or px2["repaired"]), replay); continue
            c2 = pa2.get("counts")
            if intact and not (pa2["res"] == "ok" and c2 and (c2[5] == "0" if fmt == "par2" else c2[1] == "0")):
                report("on a real directory, Verify is not clean after a successful Repair from state %s (%s): %s" % (combo, fmt, a2.split(" trace=")[0]), replay)
        if len(ctx.samples) < 4:
            ctx.sample({"format": fmt, "files": {n: list(var[n]) for n in names}, "recovery_files": len(vols), "states": len(states)})
    return ctx.finish(
        "proof",
        rule="the event alphabet {set file f to: original, absent, first byte flipped, a byte prepended, a zero byte appended (every slice stays findable in place), last byte cut, another protected file's content (PAR2); delete/restore each recovery file} generates a FINITE state space (every file in any variant x every subset of recovery files): for PAR2 (2 files, 2 recovery files; thorough also 3 files) and PAR1 (3 files, 2 volumes) EVERY state is visited and Verify, Repair and Repair with double-check are run from it on implementation and model; the successor of every Repair is looked up in the same table (closure), where its Verify and a further Repair are inspected; non-trivial = some file is not original",
        exhaustive=True,
        extra={"input_distribution": dist, "states": dist["states"], "transitions": dist["transitions"],
               "predicate": "Verify changes nothing; every Repair leaves each file as it was or original; a successful Repair leaves all files original, the successor state verifies clean and a further Repair rewrites nothing; once all recovery files are back a Repair restores everything the model says is restorable",
               "compared": "every transition (counts, outcome, repaired list, trace, changed files) vs the extracted model"})
