"""C04 — PAR1 create / verify / repair round trip (and the PAR1 parts of C02, C13, C19)."""
import itertools
import json
import struct
from . import p2lib as L
from . import par1common as P1

D = P1.DIR


def run_both(ctx, vh, model, lines, env=None, vmem_kb=None):
    return ctx.run_lines(vh, lines, timeout=3000, env=env, vmem_kb=vmem_kb), ctx.run_lines(model, lines, timeout=3000)


class Set1:
    def __init__(self, files, nvol, base="arc"):
        self.files = files                      # list of (python name, data)
        self.nvol = nvol
        self.base = base
        self.index = D + "/" + base + ".par"
        self.paths = {n: D + "/" + P1.to_go(n) for n, _ in files}
        self.created = None
        self.volumes = []

    def input_fs(self):
        fs = {self.paths[n]: d for n, d in self.files}
        fs[D + "/bystander.txt"] = b"keep"
        fs["/w/outside1.dat"] = b"outside"
        return fs

    def create_line(self, mode="mem"):
        return P1.line_create(mode, self.index, self.nvol, [self.paths[n] for n, _ in self.files], self.input_fs())


def create_all(ctx, vh, model, sets, report, mode="mem"):
    lines = [s.create_line(mode) for s in sets]
    impl, mod = run_both(ctx, vh, model, lines)
    for s, line, i, m in zip(sets, lines, impl, mod):
        pi = L.parse_result(i)
        if pi["res"] == "ok":
            s.created = L.apply_changed(s.input_fs(), pi["changed"])
            s.volumes = sorted(p for p in pi["changed"] if p != s.index)
        if L.canon(i, mode) != L.canon(m, mode):
            report("PAR1 Create differs from the model: impl=%s model=%s" % (i[:80], m[:80]),
                   {"lines": [line], "impl": i[:1500], "model": m[:1500], "class": {"op": "create"}}, True)
    return lines, impl, mod


def originals_wrong(s, fs):
    return [n for n, d in s.files if fs.get(s.paths[n]) != d]


def predicates(s, fs, pv, px, py, desc, strict=False):
    """property predicates on the implementation's own outputs; returns message or None"""
    c = pv.get("counts")
    truth_unusable = len(originals_wrong(s, fs))
    if pv["res"] in ("panic", "crash") or px["res"] in ("panic", "crash"):
        return "crash"
    if pv["changed"]:
        return "Verify modified files"
    protected = {s.paths[n]: d for n, d in s.files}
    for p, d in px["changed"].items():
        if p not in protected:
            return "Repair modified a file that is not protected: %s" % p
        if d != protected[p]:
            return "Repair wrote bytes that are not the original: %s" % p
        if p not in px["repaired"]:
            return "written file not listed as repaired: %s" % p
    after = L.apply_changed(fs, px["changed"])
    for p in px["repaired"]:
        if after.get(p) != protected.get(p):
            return "listed as repaired but not the original: %s" % p
    if px["res"] == "ok" and originals_wrong(s, after):
        return "Repair reported success but files differ from their originals: %s" % originals_wrong(s, after)
    if strict and not c and pv["res"] not in ("panic", "crash"):
        return "Verify returns an error (%s) although the only defects are lost or damaged data files and parity volumes" % pv["res"]
    if c:
        usable, unusable, pus = int(c[0]), int(c[1]), int(c[2])
        if unusable != truth_unusable or usable != len(s.files) - truth_unusable:
            return "Verify counts %d usable / %d unusable data files, the truth is %d / %d" % (usable, unusable, len(s.files) - truth_unusable, truth_unusable)
        # intact = byte-identical to what Create wrote, except for bytes 12..15: the generator-version half of the version
        # field is covered by no hash and interpreted by no reader (PAR 1.0), so a flip there leaves the volume intact
        def vol_intact(x, y):
            return len(x) == len(y) and x[:12] == y[:12] and x[16:] == y[16:]
        vols_present = sum(1 for v in s.volumes if v in fs and vol_intact(fs[v], s.created[v]))
        if (strict or all(v not in fs or vol_intact(fs[v], s.created[v]) for v in s.volumes)) and pus != vols_present:
            return "Verify counts %d usable parity volumes, %d are present and intact" % (pus, vols_present)
        if unusable <= pus and py["res"] == "ok" and px["res"] != "ok":
            return "%d unusable data files <= %d usable parity volumes but Repair failed with %s" % (unusable, pus, px["res"])
        # the same without consulting the model: the only permitted failure is the singular combination
        if strict and truth_unusable <= vols_present and px["res"] not in ("ok", "err:singular"):
            return "%d data files are lost or damaged and %d parity volumes are present and intact, but Repair failed with %s" % (truth_unusable, vols_present, px["res"])
        if unusable > pus and px["res"] == "ok":
            return "Repair succeeded with more unusable files (%d) than parity volumes (%d)" % (unusable, pus)
    return None


def run(ctx):
    ctx.check_props()
    model = ctx.build_model()
    vh = ctx.build_harness()
    if ctx.replay:
        r = json.load(open(ctx.replay))
        impl, mod = run_both(ctx, vh, model, r["lines"])
        for l, i, m in zip(r["lines"], impl, mod):
            print("impl :", i[:300]); print("model:", m[:300])
            if L.canon(i, r.get("mode", "mem")) != L.canon(m, r.get("mode", "mem")):
                ctx.violation("replay: implementation and model differ", {"lines": [l], "mode": r.get("mode", "mem")})
        return ctx.finish("proof", rule="replay")
    rng = ctx.rng
    thorough = ctx.tier == "thorough"
    rep = [0]

    def report(msg, obj, nf=False):
        if rep[0] < 6:
            rep[0] += 1
            ctx.violation(msg, obj, no_failing_input=nf)

    sets = []
    # small sets: EVERY subset of lost data files and lost volumes
    for nf, nv in ((1, 1), (2, 2), (3, 2), (3, 3), (4, 3)) + (((5, 4),) if thorough else ()):
        # base names with further dots, a space, an inner ".par": the volume names are derived from the index name
        sets.append(Set1(P1.gen_files(rng, nf, allow_big=False), nv, base=["arc", "photos.2024", "a b", "x.par.old", "dots.in.name", "UP.Case"][len(sets) % 6]))
    small = list(sets)
    # larger / bigger sets, sampled subsets
    sets.append(Set1(P1.gen_files(rng, 6), 9))
    sets.append(Set1(P1.gen_files(rng, 3), 99))
    sets.append(Set1(P1.gen_files(rng, 12, allow_big=False), 4))
    sets.append(Set1([("only.bin", L.gen_content(rng, "random", 20000)), ("empty.dat", b"")], 2))
    # the shortest names there are (1-3 UTF-16 units each): every size bound derived from "bytes per entry" is at its edge
    sets.append(Set1([("a", L.gen_content(rng, "random", 9)), ("b1", L.gen_content(rng, "random", 30)), ("世界", L.gen_content(rng, "lowent", 17)), ("x.y", b"q"), ("é", L.gen_content(rng, "random", 5))], 2))
    sets.append(Set1([("z", L.gen_content(rng, "random", 12))], 1))
    boundary = Set1([("k16383", L.gen_content(rng, "random", 16383)), ("k16384", L.gen_content(rng, "random", 16384)),
                     ("k16385", L.gen_content(rng, "random", 16385))], 3)
    sets.append(boundary)
    # files + volumes = 256, the most the format allows: the highest-numbered volume must still be looked for
    full = Set1([("m%03d" % k, bytes([k & 255, (k * 7) & 255, 1])) for k in range(250)], 6)
    sets.append(full)
    create_all(ctx, vh, model, sets, report)
    cases = []
    if boundary.created is not None:
        for n, d in boundary.files:
            p = boundary.paths[n]
            for kind, nd in (("append", d + b"x"), ("append-many", d + L.gen_content(rng, "random", 300)), ("flip-last", d[:-1] + bytes([d[-1] ^ 1])),
                             ("flip-at-16384", d[:16384] + bytes([d[16384] ^ 1]) + d[16385:] if len(d) > 16384 else None),
                             ("truncate-1", d[:-1]), ("flip-first", bytes([d[0] ^ 1]) + d[1:])):
                if nd is None:
                    continue
                fs = dict(boundary.created); fs[p] = nd
                cases.append({"set": boundary, "desc": "16KiB boundary: %s %s" % (n, kind), "fs": fs, "mode": "mem", "nontrivial": True,
                              "vline": P1.line_verify("mem", boundary.index, True, fs), "rline": P1.line_repair("mem", boundary.index, False, fs)})
    for s in sets:
        if s is boundary:
            continue
        if s.created is None:
            report("PAR1 Create failed on a valid set", {"class": {"op": "create"}}, True)
            continue
        names = [n for n, _ in s.files]
        if s in small:
            subsets = [(lf, lv) for k in range(len(names) + 1) for lf in itertools.combinations(names, k)
                       for j in range(len(s.volumes) + 1) for lv in itertools.combinations(s.volumes, j)]
        else:
            subsets = []
            for _ in range(14 if not thorough else 60):
                lf = tuple(n for n in names if rng.random() < 0.3)
                keepn = rng.choice([0, 1, len(lf), len(lf), len(lf) + 1, len(s.volumes)])
                keep = set(rng.sample(s.volumes, min(keepn, len(s.volumes))))
                subsets.append((lf, tuple(v for v in s.volumes if v not in keep)))
            subsets.append(((), ()))
        for lf, lv in subsets:
            fs = dict(s.created)
            how = []
            for n in lf:
                p = s.paths[n]
                d = fs[p]
                kind = rng.choice(["delete", "delete", "flip", "truncate", "append"]) if d else "delete"
                if kind == "delete":
                    del fs[p]
                elif kind == "flip":
                    k = rng.randrange(len(d)); fs[p] = d[:k] + bytes([d[k] ^ 0x20]) + d[k + 1:]
                elif kind == "truncate":
                    fs[p] = d[:rng.randrange(len(d))]
                else:
                    fs[p] = d + b"!"
                how.append(kind)
            vhow = []
            for v in lv:
                # a lost volume is deleted or DAMAGED (present but not intact): it must then count as unusable, not stop the operation
                vb = fs[v]
                kind = rng.choice(["delete", "delete", "flip", "truncate", "garbage", "empty", "append", "foreign", "misnumbered"])
                if kind == "delete":
                    del fs[v]
                elif kind == "flip":
                    k = rng.randrange(len(vb)); fs[v] = vb[:k] + bytes([vb[k] ^ (1 << rng.randrange(8))]) + vb[k + 1:]
                elif kind == "truncate":
                    fs[v] = vb[:rng.randrange(1, len(vb))]
                elif kind == "garbage":
                    fs[v] = L.gen_content(rng, "random", rng.choice([1, 95, 96, 97, len(vb)]))
                elif kind == "empty":
                    fs[v] = b""
                elif kind == "foreign":
                    # a well-formed volume of ANOTHER set under this name (a stale volume of an earlier Create, a copy from
                    # elsewhere): another set hash - unusable, not fatal
                    others = [o for o in sets if o is not s and o.created is not None and o.volumes]
                    fs[v] = others[len(cases) % len(others)].created[others[len(cases) % len(others)].volumes[0]] if others else b""
                elif kind == "misnumbered":
                    # one of this set's own volumes under the wrong number (two volume files exchanged / renamed)
                    sib = [w for w in s.volumes if w != v]
                    fs[v] = s.created[sib[len(cases) % len(sib)]] if sib else b""
                else:
                    fs[v] = vb + b"\x00"
                vhow.append(kind)
            how = how + ["vol:" + k for k in vhow]
            if rng.random() < 0.3:
                # a stale volume BEYOND the set's own count (Create with more volumes earlier): it belongs to no one
                others = [o for o in sets if o is not s and o.created is not None and o.volumes]
                if others and len(s.volumes) < 99:
                    fs[s.index[:-len(".par")] + ".p%02d" % (len(s.volumes) + 1)] = others[len(cases) % len(others)].created[others[len(cases) % len(others)].volumes[-1]]
                    how.append("stale-extra-volume")
            mode = "real" if rng.random() < 0.15 else "mem"
            dirs = [D]
            cases.append({"set": s, "desc": "lost files %s (%s), lost volumes %d/%d" % (list(lf), ",".join(how), len(lv), len(s.volumes)),
                          "fs": fs, "mode": mode, "nontrivial": bool(lf) or bool(lv),
                          "vline": P1.line_verify("mem", s.index, True, fs),
                          "rline": P1.line_repair(mode, s.index, rng.random() < 0.5, fs, dirs=dirs)})
    vi, vm = run_both(ctx, vh, model, [c["vline"] for c in cases])
    ri, rm = run_both(ctx, vh, model, [c["rline"] for c in cases])
    dist = {"repair_outcome": {}, "exhaustive_subset_cases": 0, "mode": {}}
    for c, a, b, x, y in zip(cases, vi, vm, ri, rm):
        s = c["set"]
        pv, px, py = L.parse_result(a), L.parse_result(x), L.parse_result(y)
        dist["repair_outcome"][px["res"]] = dist["repair_outcome"].get(px["res"], 0) + 1
        dist["mode"][c["mode"]] = dist["mode"].get(c["mode"], 0) + 1
        dist["exhaustive_subset_cases"] += s in small
        ctx.count("%s|%s" % (id(s), c["desc"]), c["nontrivial"])
        replay = {"lines": [c["vline"], c["rline"]], "mode": c["mode"], "desc": c["desc"], "impl": [a[:1200], x[:1200]], "model": [b[:1200], y[:1200]],
                  "class": {"kind": "subset"}}
        bad = predicates(s, c["fs"], pv, px, py, c["desc"], strict=True)
        if bad is None and not c["nontrivial"]:
            cc = pv.get("counts")
            if not cc or cc[4] != "1" or cc[5] != "0":
                bad = "an untouched set does not verify clean (counts %s)" % (cc,)
        if bad:
            report("%s (%s)" % (bad, c["desc"]), replay); continue
        if L.canon(a, "mem") != L.canon(b, "mem"):
            report("PAR1 Verify differs from the model (%s): impl=%s model=%s" % (c["desc"], a.split(" trace=")[0], b.split(" trace=")[0]), replay, True)
        elif L.canon(x, c["mode"]) != L.canon(y, c["mode"]):
            report("PAR1 Repair differs from the model (%s): impl=%s model=%s" % (c["desc"], x.split(" trace=")[0], y.split(" trace=")[0]), replay, True)
        if len(ctx.samples) < 4 and c["nontrivial"] and px["res"] == "ok":
            ctx.sample({"files": {n: len(d) for n, d in s.files}, "volumes": s.nvol, "damage": c["desc"], "verify": a.split(" trace=")[0], "repair": x.split(" trace=")[0]})
    return ctx.finish(
        "proof",
        rule="PAR1 sets of 1-12 files (sizes 0,1,7,100,16383,16384,20000; Unicode names incl. astral characters), 1-99 parity volumes; for sets up to 4+3 EVERY subset of lost data files x lost volumes (thorough 5+4), sampled subsets for the larger ones; lost = deleted, bit-flipped, truncated or appended-to; Verify with the full parity check, Repair with/without double-check, 15% on real directories; non-trivial = something lost",
        exhaustive=True,
        extra={"input_distribution": dist,
               "predicate": "counts = truth (a data file is usable iff present with its original bytes; a volume iff present and intact); untouched set verifies clean incl. AllDataOk; unusable <= usable volumes => Repair restores every file (or the model's singular verdict); more => not-enough; only originals written and listed",
               "compared": "counts, AllDataOk, outcome class, repaired list, I/O trace, changed files vs the extracted model"})


# ---------------------------------------------------------------------------------------------------
def small_created(ctx, vh, model, report, rng, nf=3, nv=2):
    s = Set1(P1.gen_files(rng, nf, allow_big=False), nv)
    create_all(ctx, vh, model, [s], report)
    return s


def c02_part(ctx, vh, model, report, extra):
    """PAR1 Repair on real directories with bystanders: only originals written, everything else unchanged."""
    rng = ctx.rng
    n = 0
    for _ in range(6):
        s = small_created(ctx, vh, model, report, rng, nf=rng.randrange(2, 5), nv=rng.randrange(1, 4))
        if s.created is None:
            continue
        names = [x for x, _ in s.files]
        lines, metas = [], []
        for _ in range(8):
            fs = dict(s.created)
            for nm in names:
                if rng.random() < 0.4:
                    p = s.paths[nm]
                    if rng.random() < 0.5 or not fs[p]:
                        del fs[p]
                    else:
                        fs[p] = fs[p][:-1] + bytes([fs[p][-1] ^ 1])
            for v in s.volumes:
                r = rng.random()
                if r < 0.25:
                    del fs[v]
                elif r < 0.35:
                    fs[v] = fs[v][:50]
                elif r < 0.45:
                    fs[v] = L.gen_content(rng, "random", 120)
            lines.append(P1.line_repair("real", s.index, rng.random() < 0.5, fs, dirs=[D])); metas.append(fs)
            lines.append(P1.line_verify("real", s.index, True, fs, dirs=[D])); metas.append(fs)
        impl, mod = run_both(ctx, vh, model, lines)
        for line, fs, i, m in zip(lines, metas, impl, mod):
            n += 1
            pi = L.parse_result(i)
            ctx.count("p1c02|" + L.hx(L.md5(line.encode())), bool(originals_wrong(s, fs)))
            protected = {s.paths[x]: d for x, d in s.files}
            bad = None
            if " verify " in line[:12] and pi["changed"]:
                bad = "PAR1 Verify modified the directory: %s" % sorted(pi["changed"])
            for p, d in pi["changed"].items():
                if p not in protected or d != protected[p]:
                    bad = "PAR1 Repair changed %s to something that is not a protected original" % p
                elif p not in pi["repaired"]:
                    bad = "PAR1 Repair wrote %s without listing it" % p
            replay = {"lines": [line], "mode": "real", "impl": i[:1200], "model": m[:1200], "class": {"par1": "c02"}}
            if bad:
                report(bad, replay)
            elif L.canon(i, "real") != L.canon(m, "real"):
                report("PAR1 (real directory) differs from the model: impl=%s model=%s" % (i[:90], m[:90]), replay, True)
    # PAR1 Create AGAIN with the set's own index / volume files among the inputs: they must be byte-identical afterwards
    s0 = small_created(ctx, vh, model, report, rng, nf=2, nv=2)
    if s0.created is not None:
        data = [s0.paths[x] for x, _ in s0.files]
        for extra_in, mode in (([s0.index], "mem"), (s0.volumes[:1], "mem"), (s0.volumes, "real"), ([s0.index[:-4] + ".p03"], "mem")):
            fs_ = dict(s0.created); fs_.setdefault(s0.index[:-4] + ".p03", b"a file of mine that only looks like a third volume")
            line = P1.line_create(mode, s0.index, s0.nvol, data + extra_in, fs_)
            i, m = run_both(ctx, vh, model, [line])
            pi = L.parse_result(i[0])
            n += 1
            ctx.count("p1c02-create-again|" + L.hx(L.md5(line.encode())), True)
            after = L.apply_changed(fs_, pi["changed"])
            hurt = [p_ for p_ in data + extra_in if after.get(p_) != fs_.get(p_)]
            replay = {"lines": [line], "mode": mode, "impl": i[0][:1200], "model": m[0][:1200], "class": {"par1": "c02-create-inputs-are-outputs"}}
            if hurt:
                report("PAR1 Create modified its own input files %s (inputs that are also files it writes), result %s" % (hurt, pi["res"]), replay)
            elif L.canon(i[0], mode) != L.canon(m[0], mode):
                report("PAR1 Create over its own outputs differs from the model: impl=%s model=%s" % (i[0][:90], m[0][:90]), replay, True)
    # parity volumes with a valid control hash and the right set hash but WRONG parity bytes (a stale volume of an earlier
    # version with the same file hashes recorded, a faulty writer), exactly as many as files are lost: reconstruction gives
    # wrong bytes, a re-encoding double check agrees with the volumes it used, and only the file hashes can stop the write
    sfiles = [("keep.bin", L.gen_content(rng, "random", 33), True), ("lost1.bin", L.gen_content(rng, "random", 20), True), ("lost2.bin", L.gen_content(rng, "random", 27), True)]
    ss = P1.SpecSet1(sfiles, 2)
    for nlost in (1, 2):
        arc = {D + "/arc.par": ss.index()}
        for v in range(1, nlost + 1):
            arc[D + "/arc.p%02d" % v] = P1.volume_bytes(ss.entries, ss.hashes, v, L.gen_content(rng, "random", 33))
        for dbl in (False, True):
            fs = dict(arc); fs.update({D + "/" + n_: d_ for n_, d_, _ in sfiles[:3 - nlost]})
            line = P1.line_repair("mem", D + "/arc.par", dbl, fs)
            i, m = run_both(ctx, vh, model, [line])
            pi = L.parse_result(i[0])
            n += 1
            ctx.count("p1c02-stale|%d|%s" % (nlost, dbl), True)
            originals = {D + "/" + n_: d_ for n_, d_, _ in sfiles}
            wrongw = [p_ for p_, d_ in pi["changed"].items() if originals.get(p_) != d_]
            replay = {"lines": [line], "mode": "mem", "impl": i[0][:1200], "model": m[0][:1200], "class": {"par1": "c02-stale-volume"}}
            if wrongw or pi["res"] == "ok":
                report("PAR1 Repair with parity volumes holding wrong parity (valid control hash, %d lost = %d volumes, double check %s) wrote %s and returned %s" %
                       (nlost, nlost, dbl, wrongw, pi["res"]), replay)
            elif L.canon(i[0], "mem") != L.canon(m[0], "mem"):
                report("PAR1 Repair with wrong-parity volumes differs from the model: impl=%s model=%s" % (i[0][:90], m[0][:90]), replay, True)
    # a Repair that fails part-way (the second or a later write fails): what was rewritten before must be listed and exact
    s = small_created(ctx, vh, model, report, rng, nf=3, nv=3)
    pn = 0
    if s.created is not None:
        names = [x for x, _ in s.files]
        for lost in ([names[0], names[1]], names[:3]):
            fs = dict(s.created)
            for nm in lost:
                fs.pop(s.paths[nm], None)
            base = P1.line_repair("mem", s.index, False, fs)
            bi = L.parse_result(ctx.run_lines(vh, [base], shards=1)[0])
            widx = [k for k, ev in enumerate(bi["trace"]) if ev.startswith("W:")]
            flines = []
            for j in range(1, len(widx)):
                for kind in ("n", "t1"):
                    assert base.endswith(" 0")
                    flines.append((base.rsplit(" ", 1)[0] + " 1 %d:%s" % (widx[j], kind), j, kind, widx[j]))
            fi, fm = run_both(ctx, vh, model, [f[0] for f in flines])
            protected = {s.paths[x]: d for x, d in s.files}
            for (fl, j, kind, wi), x, y in zip(flines, fi, fm):
                pn += 1
                px = L.parse_result(x)
                ctx.count("p1c02-partial|" + L.hx(L.md5(fl.encode())), True)
                torn = L.unhx(px["trace"][wi].split(":")[1]).decode("latin-1") if kind.startswith("t") and wi < len(px["trace"]) else None
                bad = None
                for p, d in px["changed"].items():
                    if p == torn:
                        continue
                    if p not in protected or d != protected[p]:
                        bad = "PAR1 Repair changed %s to something that is not a protected original" % p
                    elif p not in px["repaired"]:
                        bad = "a file rewritten before the failure is not listed in the result: %s" % p
                if px["res"] == "ok":
                    bad = "PAR1 Repair returned success although a write failed"
                replay = {"lines": [fl], "mode": "mem", "impl": x[:1200], "model": y[:1200], "class": {"par1": "c02-partial"}}
                if bad:
                    report("%s (write %d fails with %s, result %s)" % (bad, j, kind, px["res"]), replay)
                elif L.canon(x, "mem") != L.canon(y, "mem"):
                    report("PAR1 Repair with a failing write differs from the model: impl=%s model=%s" % (x[:90], y[:90]), replay, True)
    extra["par1_cases"] = n
    extra["par1_partial_failure_cases"] = pn


def c13_part(ctx, vh, model, report, extra):
    """PAR1 grid: truncation at every byte of the headers and at entry boundaries, bit flips of header fields, emptied, garbage, deleted, interrupted Create."""
    rng = ctx.rng
    s = small_created(ctx, vh, model, report, rng, nf=3, nv=2)
    if s.created is None:
        return
    arch = [s.index] + s.volumes
    muts = []
    for p in arch:
        b = s.created[p]
        short = p.rsplit("/", 1)[1]
        cuts = set(range(0, min(len(b), 96 + 60))) | {len(b) - 1, len(b) - 2}
        o = 96
        while o + 56 <= len(b):                                # entry boundaries
            eb, = struct.unpack("<Q", b[o:o + 8])
            if eb < 58 or o + eb > len(b):
                break
            cuts |= {o, o + 8, o + 55, o + 56, o + eb - 1}
            o += eb
        for c in sorted(cuts):
            if 0 <= c < len(b):
                muts.append(("truncate:%s@%d" % (short, c), {p: b[:c]}))
        for byte in range(96):
            for bit in (0, 7) if byte >= 16 else range(8):
                nb = bytearray(b); nb[byte] ^= 1 << bit
                muts.append(("flip:%s@%d.%d" % (short, byte, bit), {p: bytes(nb)}))
        for _ in range(12):
            k = rng.randrange(96, len(b)); nb = bytearray(b); nb[k] ^= 1 << rng.randrange(8)
            muts.append(("flip-body:%s@%d" % (short, k), {p: bytes(nb)}))
        muts += [("empty:" + short, {p: b""}), ("garbage:" + short, {p: L.gen_content(rng, "random", len(b))}),
                 ("delete:" + short, {p: None}), ("append:" + short, {p: b + b"zz"})]
    for r in range(2, len(arch) + 1):
        for sub in itertools.combinations(arch, r):
            muts.append(("delete-subset:%d" % r, {p: None for p in sub}))
    for k, p in enumerate(arch):
        later = {q: None for q in arch[k + 1:]}
        for cut in (0, 50, 96, 96 + 56, len(s.created[p]) - 3):
            m_ = dict(later); m_[p] = s.created[p][:cut]
            muts.append(("interrupted-create:%d files, last torn@%d" % (k + 1, cut), m_))
    cases = []
    victim = s.paths[s.files[0][0]]
    for desc, mut in muts:
        for dstate in ("intact", "onemissing"):
            fs = dict(s.created)
            for p, d in mut.items():
                if d is None:
                    fs.pop(p, None)
                else:
                    fs[p] = d
            if dstate == "onemissing":
                fs.pop(victim, None)
            cases.append((desc + "|" + dstate, fs, P1.line_verify("mem", s.index, True, fs), P1.line_repair("mem", s.index, rng.random() < 0.3, fs)))
    import os
    aenv = dict(os.environ, VH_ALLOC="1")
    vi = ctx.run_lines(vh, [c[2] for c in cases], timeout=3000, env=aenv, vmem_kb=4 << 20)
    ri = ctx.run_lines(vh, [c[3] for c in cases], timeout=3000, env=aenv, vmem_kb=4 << 20)
    vm = ctx.run_lines(model, [c[2] for c in cases], timeout=3000)
    rm = ctx.run_lines(model, [c[3] for c in cases], timeout=3000)
    for (desc, fs, vl, rl), a, b, x, y in zip(cases, vi, vm, ri, rm):
        pv, px, py = L.parse_result(a), L.parse_result(x), L.parse_result(y)
        ctx.count("p1c13|" + desc, not desc.startswith("delete:"))
        replay = {"lines": [vl, rl], "desc": desc, "impl": [a[:1000], x[:1000]], "model": [b[:1000], y[:1000]], "class": {"par1": "c13"}}
        bad = predicates(s, fs, pv, px, py, desc)
        worst = max(pv.get("alloc") or 0, px.get("alloc") or 0)
        if worst > (64 << 20) + 256 * sum(len(d) for d in fs.values()):
            bad = "allocated %d bytes on a damaged PAR1 archive" % worst
        if bad == "crash":
            bad = "PAR1 Verify/Repair crashed: %s %s" % (pv.get("raw", a[:80]), px.get("raw", x[:80]))
        if bad:
            report("%s (%s)" % (bad, desc), replay)
        elif L.canon(a, "mem") != L.canon(b, "mem"):
            report("PAR1 Verify differs from the model (%s): impl=%s model=%s" % (desc, a.split(" trace=")[0], b.split(" trace=")[0]), replay, True)
        elif L.canon(x, "mem") != L.canon(y, "mem"):
            report("PAR1 Repair differs from the model (%s): impl=%s model=%s" % (desc, x.split(" trace=")[0], y.split(" trace=")[0]), replay, True)
    extra["par1_grid_cases"] = len(cases)


def c19_part(ctx, vh, model, report, extra):
    """PAR1 re-checksummed field grid by the independent writer."""
    rng = ctx.rng
    files = [("a.dat", L.gen_content(rng, "random", 12), True), ("b.bin", L.gen_content(rng, "random", 30), True), ("c", L.gen_content(rng, "random", 5), True)]
    base = P1.SpecSet1(files, 2)
    datas = [d for _, d, _ in files]
    names = [n for n, _, _ in files]
    U = [0, 1, 2, 3, 4, 255, 256, 257, 1 << 31, (1 << 32) - 1, (1 << 63) - 1, 1 << 63, (1 << 64) - 1]
    muts = []          # (desc, {path: bytes})

    def arch(index=None, vols=None):
        out = base.archive("arc")
        if index is not None:
            out[D + "/arc.par"] = index
        for k, v in (vols or {}).items():
            if v is None:
                out.pop(D + "/arc.p%02d" % k, None)
            else:
                out[D + "/arc.p%02d" % k] = v
        return out

    E, H = base.entries, base.hashes
    par = [P1.parity_volume(datas, v) for v in (1, 2)]
    muts.append(("baseline", arch()))
    for v in U:
        muts.append(("index.count=%d" % v, arch(index=P1.volume_bytes(E, H, 0, b"", count=v))))
        muts.append(("volume.count=%d" % v, arch(vols={1: P1.volume_bytes(E, H, 1, par[0], count=v)})))
        muts.append(("index.volnumber=%d" % v, arch(index=P1.volume_bytes(E, H, v, b""))))
        muts.append(("volume.volnumber=%d" % v, arch(vols={1: P1.volume_bytes(E, H, v, par[0])})))
    # pairs: file count together with the header's own size fields (a bound taken from the header instead of the input)
    for cnt in (1 << 31, 1 << 57, (1 << 64) - 1):
        for flb_ in (0, 1 << 40, (1 << 63), (1 << 64) - 96, (1 << 64) - 1):
            muts.append(("index.count=%d+filelistbytes=%d" % (cnt, flb_), arch(index=P1.volume_bytes(E, H, 0, b"", count=cnt, flb=flb_))))
            muts.append(("volume.count=%d+filelistbytes=%d" % (cnt, flb_), arch(vols={1: P1.volume_bytes(E, H, 1, par[0], count=cnt, flb=flb_)})))
    for db in (0, 1, 1 << 63, (1 << 64) - 1):
        muts.append(("volume.databytes-field=%d" % db, arch(vols={1: P1.volume_bytes(E, H, 1, par[0], databytes=db)})))
    for v in (0, 1, 0x5F, (1 << 63), (1 << 64) - 1, (1 << 64) - 2, (1 << 64) - len(par[0]), (1 << 64) - len(par[0]) + 1):
        muts.append(("volume.dataoffset-field=%d" % v, arch(vols={1: P1.volume_bytes(E, H, 1, par[0], dataoff=v)})))
    for v in (0, 0x5F, 0x61, 1 << 63):
        muts.append(("index.filelistoffset=%d" % v, arch(index=P1.volume_bytes(E, H, 0, b"", flo=v))))
    for v in (0, 0x00010001, 0x00020000, (7 << 32) | 0x00010000):
        muts.append(("index.version=%#x" % v, arch(index=P1.volume_bytes(E, H, 0, b"", version=v))))
    muts.append(("volume.sethash-other", arch(vols={1: P1.volume_bytes(E, H, 1, par[0], sethash=bytes(16))})))
    muts.append(("index.comment", arch(index=P1.volume_bytes(E, H, 0, b"a comment \xff\xfe"))))
    # entry fields of the second entry
    n1, d1 = names[1], datas[1]
    for v in sorted(set([0, 1, 55, 56, 57, 58, 59, 56 + 2 * len(n1) - 2, 56 + 2 * len(n1) + 2, 56 + 2 * len(n1) + 1, 1 << 31, 1 << 63, (1 << 64) - 1])):
        e = bytearray(E[1]); e[0:8] = struct.pack("<Q", v)
        EE = [E[0], bytes(e), E[2]]
        muts.append(("entry.size=%d" % v, arch(index=P1.volume_bytes(EE, H, 0, b""), vols={1: P1.volume_bytes(EE, H, 1, par[0]), 2: P1.volume_bytes(EE, H, 2, par[1])})))
    for v in sorted(set(U + [len(d1) - 1, len(d1) + 1, 31, 100])):
        EE = [E[0], P1.entry_bytes(n1, d1, length=v), E[2]]
        muts.append(("entry.filebytes=%d" % v, arch(index=P1.volume_bytes(EE, H, 0, b""), vols={1: P1.volume_bytes(EE, H, 1, par[0]), 2: P1.volume_bytes(EE, H, 2, par[1])})))
    for st in (0, 2, 3, 1 << 63, (1 << 64) - 1, (1 << 64) - 2):
        EE = [E[0], P1.entry_bytes(n1, d1, status=st), E[2]]
        HH = [H[0]] + ([H[1]] if st & 1 else []) + [H[2]]
        dd = [datas[0]] + ([d1] if st & 1 else []) + [datas[2]]
        muts.append(("entry.status=%d" % st, arch(index=P1.volume_bytes(EE, HH, 0, b""),
                                                 vols={1: P1.volume_bytes(EE, HH, 1, P1.parity_volume(dd, 1)), 2: P1.volume_bytes(EE, HH, 2, P1.parity_volume(dd, 2))})))
    for nm in (".", "..", "a/b", "/abs", "sub/../x", "a.dat", "x\0y"):
        EE = [E[0], P1.entry_bytes(nm, d1), E[2]]
        muts.append(("entry.name=%r" % nm, arch(index=P1.volume_bytes(EE, H, 0, b""), vols={1: P1.volume_bytes(EE, H, 1, par[0]), 2: P1.volume_bytes(EE, H, 2, par[1])})))
    muts.append(("entry.hash-wrong", arch(index=P1.volume_bytes([E[0], P1.entry_bytes(n1, d1, hash_=bytes(16)), E[2]], [H[0], bytes(16), H[2]], 0, b""))))
    # parity data of the wrong size / wrong content
    for ln in (0, 1, 29, 31, 60):
        muts.append(("volume.datalen=%d" % ln, arch(vols={1: P1.volume_bytes(E, H, 1, L.gen_content(rng, "random", ln))})))
    muts.append(("volume.data-wrong", arch(vols={1: P1.volume_bytes(E, H, 1, L.gen_content(rng, "random", 30))})))
    muts.append(("volumes.sizes-differ", arch(vols={2: P1.volume_bytes(E, H, 2, par[1] + b"\0")})))
    muts.append(("volume.shorter-than-file", arch(vols={1: P1.volume_bytes(E, H, 1, par[0][:20]), 2: P1.volume_bytes(E, H, 2, par[1][:20])})))
    muts.append(("no-volumes", arch(vols={1: None, 2: None})))
    muts.append(("entries-duplicated", arch(index=P1.volume_bytes(E + E, H + H, 0, b""))))
    muts.append(("no-entries", arch(index=P1.volume_bytes([], [], 0, b""))))
    cases = []
    data_fs = {D + "/" + n: d for n, d, _ in files}
    for desc, a in muts:
        for dstate in ("intact", "missing", "damaged", "allmissing"):
            fs = dict(data_fs) if dstate != "allmissing" else {}
            if dstate == "missing":
                fs.pop(D + "/b.bin")
            elif dstate == "damaged":
                fs[D + "/c"] = b"XXXXX"
            fs.update(a)
            cases.append((desc + "|" + dstate, fs, P1.line_verify("mem", D + "/arc.par", True, fs), P1.line_repair("mem", D + "/arc.par", dstate == "damaged", fs)))
    # sets that REALLY have 254..257 file entries (the count field alone is rejected by the size bound): the limits of the
    # shard tables are reached only by an index of that many entries
    contents = {id(c): set(data_fs.values()) for c in cases}
    for nent in (254, 255, 256, 257):
        mf = [("f%03d" % k, bytes([k % 251 + 1, (k * 7) % 256]), True) for k in range(nent)]
        ms = P1.SpecSet1(mf, 1)
        try:
            marc = ms.archive("many")
        except Exception:
            marc = {D + "/many.par": ms.index()}
        mfs = {D + "/" + n: d for n, d, _ in mf}
        for dstate in ("intact", "missing"):
            fs = dict(mfs)
            if dstate == "missing":
                fs.pop(D + "/f007")
            fs.update(marc)
            c = ("entries=%d|%s" % (nent, dstate), fs, P1.line_verify("mem", D + "/many.par", True, fs), P1.line_repair("mem", D + "/many.par", False, fs))
            cases.append(c)
            contents[id(c)] = set(mfs.values())
    import os
    aenv = dict(os.environ, VH_ALLOC="1")
    vi = ctx.run_lines(vh, [c[2] for c in cases], timeout=3000, env=aenv, vmem_kb=6 << 20)
    ri = ctx.run_lines(vh, [c[3] for c in cases], timeout=3000, env=aenv, vmem_kb=6 << 20)
    vm = ctx.run_lines(model, [c[2] for c in cases], timeout=3000)
    rm = ctx.run_lines(model, [c[3] for c in cases], timeout=3000)
    acc = 0
    for case_, a, b, x, y in zip(cases, vi, vm, ri, rm):
        (desc, fs, vl, rl) = case_
        pv, px = L.parse_result(a), L.parse_result(x)
        ctx.count("p1c19|" + desc, not desc.startswith("baseline"))
        acc += pv["res"] == "ok"
        replay = {"lines": [vl, rl], "desc": desc, "impl": [a[:1000], x[:1000]], "model": [b[:1000], y[:1000]], "class": {"par1": "c19"}}
        bad = None
        if pv["res"] in ("panic", "crash") or px["res"] in ("panic", "crash"):
            bad = "PAR1 Verify/Repair crashed on a well-checksummed inconsistent archive: %s %s" % (pv.get("raw", a[:80]), px.get("raw", x[:80]))
        worst = max(pv.get("alloc") or 0, px.get("alloc") or 0)
        if worst > (64 << 20) + 256 * sum(len(d) for d in fs.values()):
            bad = "allocated %d bytes for %d bytes of files" % (worst, sum(len(d) for d in fs.values()))
        for p, d in px["changed"].items():
            if not p.startswith(D + "/") or p.endswith(".par") or ".p0" in p:
                bad = "PAR1 Repair wrote a path that is not a data file in the set directory: %s" % p
            elif d not in contents[id(case_)]:
                bad = "PAR1 Repair wrote bytes that are not the content of any protected file: %s" % p
        if pv["changed"]:
            bad = "PAR1 Verify modified files"
        if bad:
            report("%s (%s)" % (bad, desc), replay)
        elif L.canon(a, "mem") != L.canon(b, "mem"):
            report("PAR1 Verify differs from the model (%s): impl=%s model=%s" % (desc, a.split(" trace=")[0], b.split(" trace=")[0]), replay, True)
        elif L.canon(x, "mem") != L.canon(y, "mem"):
            report("PAR1 Repair differs from the model (%s): impl=%s model=%s" % (desc, x.split(" trace=")[0], y.split(" trace=")[0]), replay, True)
    extra["par1_grid_cases"] = len(cases)
    extra["par1_accepted_mutations"] = acc
