"""C11 — matrix inversion / row reduction / product: implementation vs proved model."""
import json
from .gf import gmul, gpow, ginv, mhex


def rand_matrix(rng, r, c, small=False):
    hi = 4 if small else 65536
    return [[rng.randrange(hi) for _ in range(c)] for _ in range(r)]


def structured(rng, kind, n):
    if kind == "random":
        return rand_matrix(rng, n, n)
    if kind == "identity":
        return [[1 if i == j else 0 for j in range(n)] for i in range(n)]
    if kind == "perm":            # forces a swap at (almost) every pivot
        p = list(range(n)); rng.shuffle(p)
        return [[rng.randrange(1, 65536) if p[i] == j else 0 for j in range(n)] for i in range(n)]
    if kind == "revperm":
        return [[1 if i + j == n - 1 else 0 for j in range(n)] for i in range(n)]
    if kind == "upper":
        return [[rng.randrange(1, 65536) if j == i else (rng.randrange(65536) if j > i else 0) for j in range(n)] for i in range(n)]
    if kind == "lower":
        return [[rng.randrange(1, 65536) if j == i else (rng.randrange(65536) if j < i else 0) for j in range(n)] for i in range(n)]
    if kind == "vandermonde":
        xs = rng.sample(range(1, 65536), n)
        return [[gpow(xs[j], i) for j in range(n)] for i in range(n)]
    if kind == "cauchy":
        xs = rng.sample(range(0, 65536), 2 * n)
        return [[ginv(xs[i] ^ xs[n + j]) for j in range(n)] for i in range(n)]
    if kind == "rankdef":         # row k := combination of earlier rows (singular detected at stage k)
        m = rand_matrix(rng, n, n)
        k = rng.randrange(n)
        row = [0] * n
        for t in range(k):
            c = rng.randrange(65536)
            row = [a ^ gmul(c, b) for a, b in zip(row, m[t])]
        m[k] = row
        return m
    if kind == "zerominor":       # zero leading entries: pivot search has to look below
        m = rand_matrix(rng, n, n)
        for i in range(n - 1):
            if rng.random() < 0.6:
                m[i][i] = 0
                for t in range(i):
                    if rng.random() < 0.5:
                        m[i][t] = 0
        return m
    if kind == "sparse":
        return [[rng.randrange(65536) if rng.random() < 0.3 else 0 for _ in range(n)] for _ in range(n)]
    if kind == "dupcol":
        m = rand_matrix(rng, n, n)
        if n >= 2:
            a, b = rng.sample(range(n), 2)
            for r in m:
                r[b] = r[a]
        return m
    raise ValueError(kind)


KINDS = ["random", "identity", "perm", "revperm", "upper", "lower", "vandermonde", "cauchy",
         "rankdef", "zerominor", "sparse", "dupcol"]


def gen_cases(ctx):
    rng = ctx.rng
    thorough = ctx.tier == "thorough"
    cases = []
    # 129 and 130: above any plausible "large matrix" threshold and not a multiple of 2 / 4 / 8 / 16 / 32
    dims = list(range(1, 41)) + [129, 130] if not thorough else list(range(1, 41)) + [64, 100, 129, 130, 150, 200, 257, 300]
    for n in dims:
        reps = 2 if n <= 40 else 1
        for kind in KINDS:
            if n > 40 and not thorough and kind not in ("random", "perm", "rankdef", "cauchy"):
                continue
            for _ in range(reps):
                m = structured(rng, kind, n)
                cases.append(("inv", kind, n, "c11 inv %d %s" % (n, mhex(m))))
                if n <= 40 or kind in ("random", "perm", "rankdef"):
                    c = rng.choice([1, 2, n, n + 3]) if n <= 40 else 2
                    nn = rand_matrix(rng, n, c)
                    cases.append(("rr", kind, n, "c11 rr %d %d %s %s" % (n, c, mhex(m), mhex(nn))))
    # exhaustive tiny matrices over a small alphabet: every 2x2 over {0,1,2,3}
    for v in range(4 ** 4):
        e = [(v >> (2 * i)) & 3 for i in range(4)]
        cases.append(("inv", "all2x2", 2, "c11 inv 2 %s" % mhex([e[:2], e[2:]])))
    for _ in range(300 if not thorough else 3000):
        n = rng.randrange(1, 5)
        m = rand_matrix(rng, n, n, small=True)
        cases.append(("inv", "small-alphabet", n, "c11 inv %d %s" % (n, mhex(m))))
    for _ in range(60 if not thorough else 400):
        r, k, c = rng.randrange(1, 13), rng.randrange(1, 13), rng.randrange(1, 13)
        a, b = rand_matrix(rng, r, k), rand_matrix(rng, k, c)
        cases.append(("times", "random", r, "c11 times %d %d %d %d %s %s" % (r, k, k, c, mhex(a), mhex(b))))
    # products with STRUCTURED left operands (entries 0 and 1, unit triangular, a row of ones, permutations) and wide right
    # operands (16, 17, 33, 64 columns: where a row kernel or a vector path would take over)
    for kind in ("identity", "perm", "upper", "lower", "vandermonde", "sparse", "dupcol"):
        for c in (1, 15, 16, 17, 33, 64):
            n = rng.choice([3, 5, 8])
            a = structured(rng, kind, n)
            if kind in ("upper", "lower"):
                a = [[(1 if i_ == j_ else (x_ if rng.random() < 0.5 else (1 if x_ else 0))) for j_, x_ in enumerate(row_)] for i_, row_ in enumerate(a)]
            b = rand_matrix(rng, n, c)
            cases.append(("times", "structured-" + kind, n, "c11 times %d %d %d %d %s %s" % (n, n, n, c, mhex(a), mhex(b))))
    ones = [[1] * 6, [1, 2, 1, 3, 1, 1], [0, 1, 1, 0, 1, 5]]
    for c in (16, 40):
        cases.append(("times", "rows-of-ones", 3, "c11 times 3 6 6 %d %s %s" % (c, mhex(ones), mhex(rand_matrix(rng, 6, c)))))
    for (r, k, k2, c) in ((2, 2, 1, 2), (1, 3, 2, 1), (3, 1, 3, 3)):
        a, b = rand_matrix(rng, r, k), rand_matrix(rng, k2, c)
        cases.append(("times", "mismatch", r, "c11 times %d %d %d %d %s %s" % (r, k, k2, c, mhex(a), mhex(b))))
    return cases


def run(ctx):
    ctx.check_props()
    gen_fail = ctx.genlink_goarith("GoLinkC11")    # rowReduceForInverse is re-translated from gf2p16/matrix.go and proved equal to the model
    model = ctx.build_model()
    vh = ctx.build_harness()
    if ctx.replay:
        cases = [tuple(c) for c in json.load(open(ctx.replay))["cases_full"]]
    else:
        cases = gen_cases(ctx)
    lines = [c[3] for c in cases]
    impl = ctx.run_lines(vh, lines)
    mod = ctx.run_lines(model, lines)
    dist = {"kind": {}, "outcome": {}, "op": {}}
    reported = 0
    for (op, kind, n, line), i, m in zip(cases, impl, mod):
        dist["kind"][kind] = dist["kind"].get(kind, 0) + 1
        dist["op"][op] = dist["op"].get(op, 0) + 1
        oc = m.split()[0]
        dist["outcome"][oc] = dist["outcome"].get(oc, 0) + 1
        ctx.count(line, n >= 2 and kind != "identity")
        if n == 3 and kind in ("perm", "rankdef"):
            ctx.sample({"case": line, "impl": i, "model": m})
        why = None
        if i.endswith("opmod"):
            why = "an operand was modified by the call"
        elif i != m:
            why = "result differs from the proved model (the unique solution / the singular verdict)"
        if why and reported < 5:
            reported += 1
            ctx.violation("%s %s n=%d: %s; impl=%s model=%s" % (op, kind, n, why, i[:80], m[:80]),
                          {"cases_full": [[op, kind, n, line]], "impl": i, "model": m, "class": {"op": op, "kind": kind}})
    ctx.report_genlink(gen_fail, "GoLinkC11")
    return ctx.finish(
        "proof",
        rule="matrices from 12 structured generators (random, identity, permutation, reversed permutation, triangular, Vandermonde, Cauchy, rank-deficient at a random stage, zero leading minors, sparse, duplicate column) for every dimension 1..40 (thorough: up to 300), all 256 2x2 matrices over {0,1,2,3}, augmented sides of width 1, 2, n, n+3, products incl. mismatched dimensions; non-trivial = dimension >= 2 and not the identity",
        extra={"input_distribution": dist,
               "compared": "result matrix / singular error / panic vs extracted Inverse16, RowReduce16, Times16; operands re-read after the call"})
