"""C08 — field and GF(2)[x] arithmetic: implementation vs the proved model and the specification."""
import json

POLY = 0x1100B


def gmul(a, b):
    r = 0
    while b:
        if b & 1:
            r ^= a
        b >>= 1
        a <<= 1
        if a & 0x10000:
            a ^= POLY
    return r


def ginv(a):
    # a^(65534)
    r, e, x = 1, 65534, a
    while e:
        if e & 1:
            r = gmul(r, x)
        x = gmul(x, x)
        e >>= 1
    return r


def gen_cases(ctx):
    rng = ctx.rng
    cases = []
    thorough = ctx.tier == "thorough"
    # all inverses
    for a in range(65536):
        cases.append("c08 inv %d" % a)
    # rows
    base = [0, 1, 2, 3, 0x100, 0x8000, 0xFFFF] + [rng.randrange(2, 65536) for _ in range(32)]
    rows = []
    for a in base:
        rows.append(a)
        if a:
            rows.append(ginv(a))      # pairs whose logs sum to exactly 65535
    if thorough:
        # the model is compared on 4096 whole rows (65536 products each); ALL 65536 rows (every pair of the 2^32) are
        # compared in the harness with the specification computed there bit by bit (op rowspec below)
        rows = rows + [rng.randrange(65536) for _ in range(4096)]
    seen = set()
    for a in rows:
        if a in seen:
            continue
        seen.add(a)
        cases.append("c08 times_row %d" % a)
        cases.append("c08 div_row %d" % a)
    # individually compared entries
    for _ in range(4096 if not thorough else 65536):
        a, b = rng.randrange(65536), rng.randrange(65536)
        cases.append("c08 times %d %d" % (a, b))
        cases.append("c08 div %d %d" % (a, b))
    for a in (0, 1, 2, 0xFFFF):
        cases.append("c08 div %d 0" % a)
        cases.append("c08 times %d 0" % a)
        cases.append("c08 times 0 %d" % a)
    # powers
    bases = [0, 1, 2, 3, 0x8000, 0xFFFF] + [rng.randrange(65536) for _ in range(506 if not thorough else 4090)]
    exps = [0, 1, 2, 3, 16, 65534, 65535, 65536, 65537, 2 ** 31, 2 ** 32 - 2, 2 ** 32 - 1]
    for k in range(1, 7):
        exps += [k * 65535 - 1, k * 65535, k * 65535 + 1]
    exps += [65535 * 65537 - 1, 65535 * 65537]  # = 2^32-1 region
    exps = sorted({e for e in exps if 0 <= e < 2 ** 32})
    for a in bases:
        for e in exps + [rng.randrange(2 ** 32) for _ in range(4)]:
            cases.append("c08 pow %d %d" % (a, e))
    # GF(2)[x]
    def poly(kind):
        if kind == 0:
            return 1 << rng.randrange(64)
        if kind == 1:
            return (1 << rng.randrange(1, 65)) - 1
        if kind == 2:
            return rng.getrandbits(64) | (1 << 63)
        if kind == 3:
            return rng.getrandbits(rng.randrange(1, 65))
        return rng.getrandbits(64)
    npoly = 10000 if not thorough else 200000
    for _ in range(npoly):
        p, q = poly(rng.randrange(5)), poly(rng.randrange(5))
        cases.append("c08 ptimes %x %x" % (p, q))
    for deg in range(64):                      # a divisor of every degree
        d = (1 << deg) | rng.getrandbits(deg) if deg else 1
        for _ in range(8):
            cases.append("c08 pdiv %x %x" % (poly(rng.randrange(5)), d))
    for _ in range(npoly):
        p, d = poly(rng.randrange(5)), poly(rng.randrange(5))
        cases.append("c08 pdiv %x %x" % (p, d or 1))
    for p in (0, 1, 0x1100B, 2 ** 64 - 1):
        cases.append("c08 pdiv %x 0" % p)
        cases.append("c08 pdiv %x %x" % (p, p or 1))
        cases.append("c08 ptimes %x 0" % p)
        cases.append("c08 ptimes 0 %x" % p)
    return cases


def judge(case, impl, model):
    """returns None if fine, else description."""
    w = case.split()
    m = model.split()
    op = w[1]
    if impl.startswith("CRASH") or impl == "NORESULT":
        return "harness died: " + impl
    if model.startswith("CRASH") or model == "NORESULT" or not m:
        return "the extracted model did not answer (%s)" % model[:60]
    if op in ("times", "times_row", "pow", "ptimes", "div_row"):
        if impl != m[1]:
            return "implementation %s differs from the specification value %s" % (impl, m[1])
        if impl != m[0]:
            return "implementation %s differs from the implementation model %s (spec agrees: model out of date?)" % (impl, m[0])
    elif op == "div":
        if impl != m[1]:
            return "implementation %s differs from specification a*inverse(b) = %s" % (impl, m[1])
        if impl != m[0]:
            return "implementation %s differs from the implementation model %s" % (impl, m[0])
    elif op == "inv":
        if impl != m[0]:
            return "inverse %s differs from the model's %s (the unique x with a*x=1)" % (impl, m[0])
        if m[0] != "panic" and m[1] != "1":
            return "model inverse does not satisfy a*x=1"
    elif op == "pdiv":
        if model == "panic":
            if impl != "panic":
                return "division by zero did not panic"
        else:
            if impl != " ".join(m[:2]):
                return "quotient/remainder %s differ from model %s" % (impl, " ".join(m[:2]))
            if m[2] != "specok":
                return "q*d+r=p / deg r < deg d violated"
    return None


def nontrivial(case):
    w = case.split()
    ops = [x for x in w[2:]]
    return all(o not in ("0", "1") for o in ops)


def localize_row(ctx, vh, model, case):
    """find the first operand pair of a bad row"""
    w = case.split()
    a = int(w[2])
    op = "times" if w[1] == "times_row" else "div"
    if op == "times":
        lines = ["c08 times %d %d" % (a, b) for b in range(65536)]
    else:
        lines = ["c08 div %d %d" % (x, a) for x in range(65536)]
    impl = ctx.run_lines(vh, lines)
    mod = ctx.run_lines(model, lines)
    for l, i, m in zip(lines, impl, mod):
        why = judge(l, i, m)
        if why:
            return l, i, m, why
    return case, "?", "?", "row digest differs but no single entry does"


def run(ctx):
    ctx.check_props()
    gen_fail = ctx.genlink_goarith("GoLinkC08")    # the Go arithmetic / constants are re-translated from the source and the GEN_* theorems re-checked
    model = ctx.build_model()
    vh = ctx.build_harness()
    if ctx.replay:
        cases = json.load(open(ctx.replay))["cases"]
        for c_ in [c for c in cases if c.startswith("c08 rowspec")]:
            r_ = ctx.run_lines(vh, [c_], shards=1)[0]
            print(c_, "->", r_)
            if r_ != "ok":
                ctx.violation("%s: %s" % (c_, r_), {"cases": [c_], "impl": r_, "class": {"op": "rowspec"}})
        cases = [c for c in cases if not c.startswith("c08 rowspec")]
    else:
        cases = gen_cases(ctx)
    impl = ctx.run_lines(vh, cases)
    mod = ctx.run_lines(model, cases)
    dist = {}
    exhaustive_pairs = 0
    if ctx.tier == "thorough" and not ctx.replay:
        rs = ["c08 rowspec %d" % a for a in range(65536)]
        rr = ctx.run_lines(vh, rs)
        for c_, r_ in zip(rs, rr):
            ctx.count(c_, True)
            exhaustive_pairs += 65536
            if r_ != "ok":
                ctx.violation("%s: %s (specification computed in the harness, all 65536 partners)" % (c_, r_),
                              {"cases": [c_], "impl": r_, "class": {"op": "rowspec"}})
                break
    products = 0
    reported = 0
    for c, i, m in zip(cases, impl, mod):
        op = c.split()[1]
        dist[op] = dist.get(op, 0) + 1
        products += 65536 if op.endswith("_row") else 1
        ctx.count(c, nontrivial(c))
        if dist[op] == 3:
            ctx.sample({"case": c, "impl": i, "model": m})
        why = judge(c, i, m)
        if why and reported < 5:
            reported += 1
            if op.endswith("_row"):
                c, i, m, why = localize_row(ctx, vh, model, c)
            ctx.violation("%s: %s" % (c, why), {"cases": [c], "impl": i, "model": m, "class": {"op": c.split()[1]}})
    ctx.report_genlink(gen_fail, "GoLinkC08")
    return ctx.finish(
        "proof",
        rule="cases from the seeded generator (all 65536 inverses; full rows of Times/Div for structured+random constants and their inverses; individual products/quotients; Pow over exponent classes; structured/random 64-bit polynomials); a row counts as one case; non-trivial = no operand is 0 or 1",
        extra={"input_distribution": dist, "products_checked": products, "pairs_checked_against_harness_spec": exhaustive_pairs,
               "compared": "implementation value vs (a) extracted implementation model T_Times/T_Div/T_Inverse/T_Pow/Poly64_* and (b) extracted specification fmul/fpow/clmul"},
        exhaustive=(ctx.tier == "thorough"))
