"""C02 — Repair writes only exact originals; nothing else is ever modified (PAR2 and PAR1)."""
import json
from . import p2lib as L
from . import par2common as P
from . import c01


def run(ctx):
    ctx.check_props()
    model = ctx.build_model()
    vh = ctx.build_harness()
    if ctx.replay:
        r = json.load(open(ctx.replay))
        if r.get("foot"):
            from . import osfoot
            f = r["foot"]
            _, judged = osfoot.run(ctx, vh, [{"line": r["lines"][0], "op": f["op"], "writes": set(f["writes"]), "below": f["below"], "desc": f["desc"]}])
            for c, msgs in judged:
                print("syscall footprint:", msgs or "within bounds")
                if msgs:
                    ctx.violation("replay: %s: %s" % (c["desc"], "; ".join(sorted(set(msgs))[:4])), dict(r))
            return ctx.finish("proof", rule="replay (syscall footprint)")
        impl, mod = P.run_both(ctx, vh, model, r["lines"])
        for l, i, m in zip(r["lines"], impl, mod):
            print("impl :", i[:300]); print("model:", m[:300])
            if L.canon(i, r.get("mode", "mem")) != L.canon(m, r.get("mode", "mem")):
                ctx.violation("replay: implementation and model differ", {"lines": [l], "impl": i[:3000], "model": m[:3000], "mode": r.get("mode", "mem")})
        return ctx.finish("proof", rule="replay")
    rep = [0]

    def report(msg, obj, nf=False):
        if rep[0] < 6:
            rep[0] += 1
            ctx.violation(msg, obj, no_failing_input=nf)

    cases = c01.build_cases(ctx, vh, model, nsets=30, real_frac=0.5, volume_damage=True)
    # Create: inputs untouched, only index/volume files written (checked on the sets' own creation, real mode too)
    rng = ctx.rng
    csets = [P.gen_set(rng) for _ in range(12)]
    clines = [ps.create_line("real" if k % 2 else "mem") for k, ps in enumerate(csets)]
    ci, cm = P.run_both(ctx, vh, model, clines)
    for k, (ps, line, i, m) in enumerate(zip(csets, clines, ci, cm)):
        mode = "real" if k % 2 else "mem"
        pi = L.parse_result(i)
        ctx.count("create|" + L.hx(L.md5(line.encode())), True)
        prefix = P.DIR + "/" + ps.base + "."
        bad = [p for p in pi["changed"] if not (p.startswith(prefix) and p.endswith(".par2"))]
        if bad:
            report("Create modified files other than its own index/recovery files: %s" % bad, {"lines": [line], "mode": mode, "impl": i[:1500], "class": {"op": "create"}})
        elif L.canon(i, mode) != L.canon(m, mode):
            report("Create differs from the model", {"lines": [line], "mode": mode, "impl": i[:1500], "model": m[:1500], "class": {"op": "create"}}, nf=True)
    # Create AGAIN over an existing set with the set's own files among the inputs (`par c arc.par2 *` a second time): the
    # inputs must be byte-identical afterwards whatever Create answers - it has to refuse before it writes
    again = []
    for k, (ps, i0) in enumerate(zip(csets, ci)):
        p0 = L.parse_result(i0)
        if p0["res"] != "ok":
            continue
        st0 = L.apply_changed(ps.input_fs(), p0["changed"])
        outs0 = sorted(p_ for p_ in p0["changed"])
        data = [ps.paths[n] for n in ps.files]
        for extra_in in ([ps.index], outs0[-1:], outs0, [P.DIR + "/" + ps.base + ".mine.par2"]):
            fs_ = dict(st0); fs_.setdefault(P.DIR + "/" + ps.base + ".mine.par2", b"my own file, named like a recovery file")
            mode = "real" if k % 2 else "mem"
            again.append((ps, mode, fs_, data + extra_in, L.line_create("p2", mode, ps.index, ps.slice, ps.nparity, 1, data + extra_in, fs_)))
    agi, agm = P.run_both(ctx, vh, model, [a_[4] for a_ in again])
    for (ps, mode, fs_, ins, line), i, m in zip(again, agi, agm):
        pi = L.parse_result(i)
        ctx.count("create-again|" + L.hx(L.md5(line.encode())), True)
        after = L.apply_changed(fs_, pi["changed"])
        hurt = [p_ for p_ in ins if after.get(p_) != fs_.get(p_)]
        replay = {"lines": [line], "mode": mode, "impl": i[:1500], "model": m[:1500], "class": {"op": "create-inputs-are-outputs"}}
        if hurt:
            report("Create modified its own input files %s (inputs that are also output / recovery files of the set), result %s" % (hurt, pi["res"]), replay)
        elif L.canon(i, mode) != L.canon(m, mode):
            report("Create over its own outputs differs from the model: impl=%s model=%s" % (i[:100], m[:100]), replay, nf=True)
    vi, vm = P.run_both(ctx, vh, model, [c["vline"].replace("p2 verify mem", "p2 verify " + c["mode"], 1) if False else c["vline"] for c in cases])
    ri, rm = P.run_both(ctx, vh, model, [c["rline"] for c in cases])
    # real-mode Verify on the same states: the directory snapshot must be unchanged
    rv_lines = [L.line_verify("p2", "real", c["set"].index, 1, c["fs"], dirs=L.parent_dirs(c["set"].paths.values())) for c in cases if c["mode"] == "real"]
    rvi, rvm = P.run_both(ctx, vh, model, rv_lines)
    for line, i, m in zip(rv_lines, rvi, rvm):
        pi = L.parse_result(i)
        ctx.count("rverify|" + L.hx(L.md5(line.encode())), True)
        if pi["changed"]:
            report("Verify modified the directory: %s" % sorted(pi["changed"]), {"lines": [line], "mode": "real", "impl": i[:1500], "class": {"op": "verify"}})
        elif L.canon(i, "real") != L.canon(m, "real"):
            report("Verify (real directory) differs from the model: impl=%s model=%s" % (i[:100], m[:100]), {"lines": [line], "mode": "real", "impl": i[:1500], "model": m[:1500], "class": {"op": "verify"}}, nf=True)
    dist = {"repair_outcome": {}, "mode": {}, "writes": 0, "beyond_capacity_or_failed": 0, "volume_damage": 0}
    for c, a, b, x, y in zip(cases, vi, vm, ri, rm):
        ps = c["set"]
        pv, px, py = L.parse_result(a), L.parse_result(x), L.parse_result(y)
        dist["repair_outcome"][px["res"]] = dist["repair_outcome"].get(px["res"], 0) + 1
        dist["mode"][c["mode"]] = dist["mode"].get(c["mode"], 0) + 1
        dist["writes"] += len(px["changed"])
        dist["beyond_capacity_or_failed"] += px["res"] != "ok"
        dist["volume_damage"] += "+vol" in c["desc"]
        damaged = bool(P.originals_ok(ps, c["fs"]))
        ctx.count("repair|" + L.hx(L.md5(c["rline"].encode())), damaged)
        replay = {"lines": [c["vline"], c["rline"]], "mode": c["mode"], "desc": c["desc"],
                  "impl": [a[:1500], x[:1500]], "model": [b[:1500], y[:1500]], "class": {"damage": c["desc"].split(":")[0]}}
        if pv["changed"]:
            report("Verify modified files: %s (%s)" % (sorted(pv["changed"]), c["desc"]), replay)
            continue
        if px["res"] in ("panic", "crash"):
            report("Repair crashed (%s): %s" % (c["desc"], px.get("raw", "")), replay)
            continue
        protected = {ps.paths[n]: ps.files[n] for n in ps.files}
        bad = None
        for p, d in px["changed"].items():
            if p not in protected:
                bad = "a file that is not protected was modified: %s" % p
            elif d != protected[p]:
                bad = "a protected file was written with bytes that are not its original: %s" % p
            elif p not in px["repaired"]:
                bad = "a written file is not listed in the result: %s" % p
        for p in px["repaired"]:
            after = L.apply_changed(c["fs"], px["changed"])
            if p not in protected or after.get(p) != protected[p]:
                bad = "a path listed as repaired does not hold the original bytes: %s" % p
        if bad:
            report("%s (%s, result %s)" % (bad, c["desc"], px["res"]), replay)
            continue
        if L.canon(x, c["mode"]) != L.canon(y, c["mode"]):
            report("Repair differs from the proved model (%s): impl=%s model=%s" % (c["desc"], x[:100], y[:100]), replay, nf=True)
        if px["changed"] and px["res"] != "ok" and len(ctx.samples) < 4:
            ctx.sample({"damage": c["desc"], "repair": x.split(" trace=")[0], "written": sorted(px["changed"])})
    # Repair that fails part-way (a later write fails): what was already rewritten must still be listed and exact
    fcases = []
    for c, x in zip(cases, ri):
        px = L.parse_result(x)
        if c["mode"] != "mem" or len(px["repaired"]) < 2 or len(fcases) >= (12 if ctx.tier != "thorough" else 60):
            continue
        widx = [k for k, ev in enumerate(px["trace"]) if ev.startswith("W:")]
        for j in range(1, len(widx)):
            for kind in ("n", "t1"):
                fl = c["rline"].rsplit(" ", 1)[0] + " 1 %d:%s" % (widx[j], kind)
                assert c["rline"].endswith(" 0")
                fcases.append((c, fl, j, kind))
    fi, fm = P.run_both(ctx, vh, model, [f[1] for f in fcases])
    for (c, fl, j, kind), x, y in zip(fcases, fi, fm):
        ps = c["set"]
        px = L.parse_result(x)
        ctx.count("partial|" + L.hx(L.md5(fl.encode())), True)
        dist["partial_failure_cases"] = dist.get("partial_failure_cases", 0) + 1
        protected = {ps.paths[n]: ps.files[n] for n in ps.files}
        replay = {"lines": [fl], "mode": "mem", "desc": c["desc"] + " + write %d fails (%s)" % (j, kind), "impl": [x[:1500]], "model": [y[:1500]], "class": {"damage": "partial-failure"}}
        bad = None
        torn = None
        if kind.startswith("t"):
            ev = px["trace"][[k for k, e in enumerate(px["trace"]) if e.startswith("W:")][j]] if len([e for e in px["trace"] if e.startswith("W:")]) > j else ""
            torn = L.unhx(ev.split(":")[1]).decode("latin-1") if ev else None
        for p, d in px["changed"].items():
            if p == torn:
                continue            # the torn write itself: reported by the error (C18 judges it)
            if p not in protected:
                bad = "a file that is not protected was modified: %s" % p
            elif d != protected[p]:
                bad = "a protected file was written with bytes that are not its original: %s" % p
            elif p not in px["repaired"]:
                bad = "a file rewritten before the failure is not listed in the result: %s" % p
        if px["res"] == "ok":
            bad = "Repair returned success although a write failed"
        if bad:
            report("%s (%s, write %d fails with %s, result %s)" % (bad, c["desc"], j, kind, px["res"]), replay)
        elif L.canon(x, "mem") != L.canon(y, "mem"):
            report("Repair with a failing write differs from the model (%s): impl=%s model=%s" % (c["desc"], x[:100], y[:100]), replay, nf=True)
    # stale recovery files: a second set with the same names, lengths and first 16 KiB (hence the same file ids
    # and recovery-set id) but different content beyond; its volumes beside the first set's index are accepted
    # by every packet-level check, reconstruction yields wrong bytes, and only the whole-file hash can stop the write
    stale = []
    for S_, n_ in ((2000, 20000), (4096, 16384 + 4096 + 5)):
        head = L.gen_content(rng, "random", 16384)
        fa = head + L.gen_content(rng, "random", n_ - 16384)
        fb = head + L.gen_content(rng, "random", n_ - 16384)
        A = P.PSet({"big.bin": fa, "small.txt": b"hello world"}, S_, 2, g=2, tag="stale-A")
        B = P.PSet({"big.bin": fb, "small.txt": b"hello world"}, S_, 2, g=2, tag="stale-B")
        stale.append((A, B))
    cr = P.create_all(ctx, vh, model, [x for ab in stale for x in ab])
    for ps, line, i, m in cr:
        if i != m:
            report("Create differs from the model (%s)" % ps.tag, {"lines": [line], "impl": i[:1500], "model": m[:1500], "class": {"op": "create"}}, nf=True)
    slines = []
    for A, B in stale:
        if A.created is None or B.created is None:
            continue
        for dbl in (False, True):
            fs = dict(A.created)
            for v in B.volumes:
                fs[v] = B.created[v]
            d = bytearray(fs[A.paths["big.bin"]])
            d[16384 + 100] ^= 0xff
            fs[A.paths["big.bin"]] = bytes(d)
            slines.append((A, L.line_repair("p2", "mem", A.index, dbl, 1, fs), fs))
            # ... and with exactly as many stale blocks as lost slices: then a re-encoding double check agrees trivially
            # with the blocks that were used, and only the file hashes stand between the wrong bytes and the disk
            for keep in B.volumes:
                fs1 = {p_: d_ for p_, d_ in fs.items() if p_ not in B.volumes or p_ == keep}
                if P.vol_blocks(keep) == 1:
                    slines.append((A, L.line_repair("p2", "mem", A.index, dbl, 1, fs1), fs1))
    si, sm = P.run_both(ctx, vh, model, [x[1] for x in slines])
    for (A, line, fs), x, y in zip(slines, si, sm):
        px = L.parse_result(x)
        ctx.count("stale|" + L.hx(L.md5(line.encode())), True)
        dist["stale_volume_cases"] = dist.get("stale_volume_cases", 0) + 1
        bad = [p for p, dd in px["changed"].items() if dd != A.files.get(p[len(P.DIR) + 1:])]
        replay = {"lines": [line], "mode": "mem", "desc": "stale recovery files of a sibling set", "impl": [x[:1500]], "model": [y[:1500]], "class": {"damage": "stale-volume"}}
        if bad:
            report("Repair wrote bytes that are not the original (stale recovery files accepted): %s result %s" % (bad, px["res"]), replay)
        elif x != y:
            report("Repair with stale recovery files differs from the model: impl=%s model=%s" % (x[:100], y[:100]), replay, nf=True)
    # ---------------- syscall-level footprint on a real directory (strace): what is touched, not what is left ----------------
    from . import osfoot
    from . import par1common as P1
    fcs = []
    for k, (ps, line, m) in enumerate(zip(csets, clines, cm)):
        if k % 2:
            fcs.append({"line": line, "op": "create", "writes": set(L.parse_result(m)["changed"]), "below": P.DIR, "desc": "par2 create"})
    nrep = 0
    for c, y in zip(cases, rm):
        if c["mode"] == "real" and nrep < (25 if ctx.tier != "thorough" else 200):
            nrep += 1
            fcs.append({"line": c["rline"], "op": "repair", "writes": set(c["set"].paths.values()), "below": P.DIR, "desc": "par2 repair " + c["desc"]})
    for line in rv_lines[:(15 if ctx.tier != "thorough" else 100)]:
        fcs.append({"line": line, "op": "verify", "writes": set(), "below": P.DIR, "desc": "par2 verify"})
    # PAR1: a set by the independent writer with a non-saved entry, one file lost, bystanders named like temporaries
    p1files = [("a.dat", L.gen_content(rng, "random", 40), True), ("skip.me", b"not in the set", False), ("sub b.bin", L.gen_content(rng, "random", 25), True)]
    s1 = P1.SpecSet1(p1files, 2)
    by1 = {P1.DIR + "/a.dat.tmp": b"bystander 1", P1.DIR + "/a.dat~": b"bystander 2", P1.DIR + "/.a.dat.swp": b"bystander 3", P1.DIR + "/arc.par.tmp": b"bystander 4"}
    for lost in ("a.dat", "sub b.bin", None):
        fs1 = dict(s1.archive("arc")); fs1.update({P1.DIR + "/" + n: d for n, d, _ in p1files if n != lost}); fs1.update(by1)
        fcs.append({"line": P1.line_repair("real", P1.DIR + "/arc.par", False, fs1), "op": "repair", "writes": {P1.DIR + "/" + n for n, _, sv in p1files if sv}, "below": P1.DIR, "desc": "par1 repair lost=%s" % lost})
        fcs.append({"line": P1.line_verify("real", P1.DIR + "/arc.par", True, fs1), "op": "verify", "writes": set(), "below": P1.DIR, "desc": "par1 verify lost=%s" % lost})
    fin = {P1.DIR + "/" + n: d for n, d, _ in p1files}; fin.update(by1)
    fcs.append({"line": P1.line_create("real", P1.DIR + "/new.par", 2, [P1.DIR + "/" + n for n, _, _ in p1files], fin), "op": "create",
                "writes": {P1.DIR + "/new.par", P1.DIR + "/new.p01", P1.DIR + "/new.p02"}, "below": P1.DIR, "desc": "par1 create"})
    try:
        fres, judged = osfoot.run(ctx, vh, fcs)
    except Exception as e:                       # strace not usable here: recorded, the snapshot comparisons above stand
        fres, judged = [], []
        dist["syscall_footprint"] = "not run: %s" % str(e)[:200]
    for c, msgs in judged:
        ctx.count("foot|" + L.hx(L.md5(c["line"].encode())), True)
        dist["syscall_footprint_cases"] = dist.get("syscall_footprint_cases", 0) + 1
        if msgs:
            report("%s: %s" % (c["desc"], "; ".join(sorted(set(msgs))[:4])), {"lines": [c["line"]], "mode": "real", "foot": {"op": c["op"], "writes": sorted(c["writes"]), "below": c["below"], "desc": c["desc"]}, "messages": sorted(set(msgs))[:20], "class": {"op": c["op"], "kind": "syscall-footprint"}})
    extra = {"input_distribution": dist}
    try:
        from . import par1common
        par1common.c02_part(ctx, vh, model, report, extra)
    except ImportError:
        extra["par1"] = "PAR1 part not built yet"
    return ctx.finish(
        "proof",
        rule="PAR2 archive states from the C01 generator (incl. beyond-capacity damage, pairs of damages, dropped recovery files) plus damaged / truncated / garbage / foreign recovery files, with bystander files, a foreign .par2 in a sub-directory and a file outside the set directory; half of the Repairs and all listed Verifies on a real directory whose whole tree is snapshotted before and after; Create in memory and on disk; SYSCALL FOOTPRINT: real-directory Creates, Repairs and Verifies (PAR2 and PAR1, incl. bystanders named like temporaries) run under strace - every create/truncate/rename/unlink/mkdir/chmod between the harness markers must target a path the operation may write, below the set directory; non-trivial = some protected file differs from its original",
        extra=dict(extra, predicate="changed paths subset of repaired paths subset of protected paths, each holding exactly the original bytes, for every outcome; Verify and Create leave everything else (Create: everything but its own outputs) unchanged",
                   compared="outcome class, repaired list, I/O trace, changed files vs the extracted model"))
