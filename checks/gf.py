"""GF(2^16) helpers for the case generators (never used as an oracle)."""
POLY = 0x1100B


def gmul(a, b):
    r = 0
    while b:
        if b & 1:
            r ^= a
        b >>= 1
        a <<= 1
        if a & 0x10000:
            a ^= POLY
    return r


def gpow(a, e):
    r = 1
    while e:
        if e & 1:
            r = gmul(r, a)
        a = gmul(a, a)
        e >>= 1
    return r


def ginv(a):
    return gpow(a, 65534)


def mhex(rows):
    return "".join("%04x" % x for r in rows for x in r) or "-"


def mmul(a, b):
    n, k, c = len(a), len(b), len(b[0])
    out = [[0] * c for _ in range(n)]
    for i in range(n):
        for t in range(k):
            if a[i][t]:
                for j in range(c):
                    out[i][j] ^= gmul(a[i][t], b[t][j])
    return out
