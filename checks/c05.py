"""C05 — created PAR2 sets are valid PAR2 (independent specification-side reader) and carry the specified RS data."""
import json
from . import p2lib as L
from . import par2common as P


def gen_sets(ctx):
    rng = ctx.rng
    thorough = ctx.tier == "thorough"
    sets = []
    # names in sub-directories, lengths not a multiple of 4, sizes around the slice size
    for S in (4, 8, 64):
        for _ in range(5 if not thorough else 15):
            ps = P.gen_set(rng, slice_choices=(S,), maxfiles=6, nparity=rng.choice([1, 2, 3, 7, 8]))
            ps.bystanders = {}
            sets.append(ps)
    # sizes around 16384 with 2000-byte slices
    for sz in (16383, 16384, 16385, 40000):
        ps = P.PSet({"dir/big%d.bin" % sz: L.gen_content(rng, "random", sz), "x": L.gen_content(rng, "lowent", 1999)}, 2000, 3, g=4, tag="16k:%d" % sz)
        sets.append(ps)
    # many recovery blocks (several volume files), power-of-two and non-power-of-two counts
    for nb in (1, 2, 4, 16, 100, 300) + ((64, 127, 128, 129) if thorough else ()):
        ps = P.PSet({"a": L.gen_content(rng, "random", 9), "b/c": L.gen_content(rng, "dupslices", 21, 4)}, 4, nb, g=rng.choice([1, 4]), tag="blocks:%d" % nb)
        sets.append(ps)
    # more than 256 slices (constants beyond the first 256; divisors 3, 5, 17, 257 all exercised below index 130)
    sets.append(P.PSet({"many.bin": L.gen_content(rng, "random", 4 * 290 + 1), "z": L.gen_content(rng, "zeros", 12)}, 4, 3, g=3, tag=">256 slices"))
    # many slices x many blocks: the coefficients c_i^e then run through a large part of the field (0xFFFF included from about 150 x 75 on)
    sets.append(P.PSet({"dense.bin": L.gen_content(rng, "random", 4 * 200), "d2": L.gen_content(rng, "random", 37)}, 4, 100, g=2, tag="200+ slices x 100 blocks"))
    # a long relative name (deep directories)
    deep = "/".join(["d%02d_%s" % (i, "x" * 20) for i in range(12)]) + "/leaf.bin"
    sets.append(P.PSet({deep: L.gen_content(rng, "random", 30), "short": b"s"}, 4, 2, tag="long name (%d bytes)" % len(deep)))
    # twelve files
    sets.append(P.PSet({"f%02d" % i: L.gen_content(rng, "random", rng.randrange(1, 40)) for i in range(12)}, 8, 5, tag="12 files"))
    # slice sizes that are not a multiple of 16, split over several goroutines: the workers' byte ranges are multiples of 16
    # and the last one is a short tail (slice 100 / 8 workers: 6 x 16 + 4; 36 / 3: 16 + 16 + 4; 132 / 8; 52 / 4; 20 / 2)
    for S_, g_ in ((100, 8), (36, 3), (132, 8), (52, 4), (20, 2), (68, 16), (100, 1), (68, 1), (132, 1), (76, 2), (100, 4), (68, 3), (200, 6)):
        sets.append(P.PSet({"t.bin": L.gen_content(rng, "random", 3 * S_ + 5), "u": L.gen_content(rng, "random", S_ - 1)}, S_, 3, g=g_, tag="slice %d x %d goroutines" % (S_, g_)))
    # file ids (MD5 of 16k-hash, length, name) that agree in their most significant bytes (15, 14 and - for one pair - 13..):
    # the ascending order of the main packet is then decided by LOW bytes of the 128-bit little-endian number
    import hashlib, struct
    body = L.gen_content(rng, "random", 21)
    h16 = hashlib.md5(body).digest()
    seen, ties = {}, []
    for k in range(40000):
        name = "t%05d" % k
        fid = hashlib.md5(h16 + struct.pack("<Q", len(body)) + name.encode()).digest()
        key = fid[13:16]
        if key in seen:
            ties.append((seen[key], name))
            if len(ties) >= 2:
                break
        seen[key] = name
    key2 = {}
    for k in range(3000):
        name = "u%04d" % k
        fid = hashlib.md5(h16 + struct.pack("<Q", len(body)) + name.encode()).digest()
        if fid[14:16] in key2 and len(ties) < 4:
            ties.append((key2[fid[14:16]], name))
        key2[fid[14:16]] = name
    for a_, b_ in ties[:4]:
        sets.append(P.PSet({a_: body, b_: body, "zz": L.gen_content(rng, "random", 5)}, 8, 2, g=1, tag="file ids tie in the high bytes (%s, %s)" % (a_, b_)))
    if thorough:
        sets.append(P.PSet({"huge.bin": L.gen_content(rng, "random", 4 * 4000)}, 4, 4, g=7, tag="4000 slices"))
    return sets


def valid_line(ps, outs):
    t = ["c05", "valid", str(ps.slice), str(ps.nparity), str(len(ps.files))]
    for n, d in ps.files.items():
        t += [L.hx(n), L.hx(d)]
    t.append(str(len(outs)))
    for p, d in outs:
        t += ["1" if p == ps.index else "0", L.hx(d)]
    return " ".join(t)


def run(ctx):
    ctx.check_props()
    gen_fail = ctx.genlink_goarith("GoLinkC05")    # the Go arithmetic / constants are re-translated from the source and the GEN_* theorems re-checked
    model = ctx.build_model()
    vh = ctx.build_harness()
    if ctx.replay:
        r = json.load(open(ctx.replay))
        impl, mod = P.run_both(ctx, vh, model, r["lines"])
        for l, i, m in zip(r["lines"], impl, mod):
            print("impl :", i[:300]); print("model:", m[:300])
        if r.get("valid_line"):
            print("validator:", ctx.run_lines(model, [r["valid_line"]]))
        ctx.violation("replay", {"lines": r["lines"]}) if impl != mod else None
        return ctx.finish("proof", rule="replay")
    rep = [0]

    def report(msg, obj, nf=False):
        if rep[0] < 6:
            rep[0] += 1
            ctx.violation(msg, obj, no_failing_input=nf)

    sets = gen_sets(ctx)
    modes = ["real" if k % 3 == 0 else "mem" for k in range(len(sets))]
    lines = [ps.create_line(mode) for ps, mode in zip(sets, modes)]
    impl, mod = P.run_both(ctx, vh, model, lines)
    vlines, vsets = [], []
    dist = {"tag": {}, "mode": {}, "files_written": 0}
    for ps, mode, line, i, m in zip(sets, modes, lines, impl, mod):
        pi = L.parse_result(i)
        dist["mode"][mode] = dist["mode"].get(mode, 0) + 1
        ctx.count("create|" + L.hx(L.md5(line.encode())), len(ps.files) >= 2 or ps.nslices() >= 2)
        replay = {"lines": [line], "mode": mode, "set": ps.tag, "impl": i[:1500], "model": m[:1500], "class": {"set": ps.tag.split(":")[0]}}
        if pi["res"] != "ok":
            report("Create failed on a valid input set (%s): %s" % (ps.tag, i[:100]), replay)
            continue
        outs = sorted(pi["changed"].items())
        dist["files_written"] += len(outs)
        vl = valid_line(ps, outs)
        replay["valid_line"] = vl
        vlines.append(vl); vsets.append((ps, mode, line, i, m, replay))
    vres = ctx.run_lines(model, vlines, timeout=3000)
    for (ps, mode, line, i, m, replay), v in zip(vsets, vres):
        if v != "valid":
            report("the files Create wrote are not a valid PAR2 set for these inputs as judged by the specification-side reader (%s, %s)" % (ps.tag, v[:60]), replay)
        elif L.canon(i, mode) != L.canon(m, mode):
            report("Create output is valid PAR2 but differs from the model's bytes (%s)" % ps.tag, replay, nf=True)
        if len(ctx.samples) < 4:
            pi = L.parse_result(i)
            ctx.sample({"set": ps.tag or {n: len(d) for n, d in ps.files.items()}, "slice": ps.slice, "blocks": ps.nparity,
                        "files": {p: len(d) for p, d in pi["changed"].items()}, "validator": v})
    # the error clauses: inputs Create must refuse
    rng = ctx.rng
    bad = []
    okf = {P.DIR + "/a": b"abcdefg"}
    bad.append(("empty file", L.line_create("p2", "mem", P.DIR + "/x.par2", 4, 2, 1, [P.DIR + "/e"], {P.DIR + "/e": b""})))
    bad.append(("non-ASCII name", L.line_create("p2", "mem", P.DIR + "/x.par2", 4, 2, 1, [P.DIR + "/n\xe9"], {P.DIR + "/n\xe9": b"abc"})))
    bad.append(("file outside the index directory", L.line_create("p2", "mem", P.DIR + "/x.par2", 4, 2, 1, ["/w/outside"], {"/w/outside": b"abc"})))
    bad.append(("slice size not a multiple of 4", L.line_create("p2", "mem", P.DIR + "/x.par2", 6, 2, 1, [P.DIR + "/a"], okf)))
    bad.append(("wrong extension", L.line_create("p2", "mem", P.DIR + "/x.par", 4, 2, 1, [P.DIR + "/a"], okf)))
    bad.append(("missing input", L.line_create("p2", "mem", P.DIR + "/x.par2", 4, 2, 1, [P.DIR + "/nope"], okf)))
    bad.append(("no inputs", L.line_create("p2", "mem", P.DIR + "/x.par2", 4, 2, 1, [], okf)))
    bi, bm = P.run_both(ctx, vh, model, [b[1] for b in bad])
    for (what, line), i, m in zip(bad, bi, bm):
        pi = L.parse_result(i)
        ctx.count("refuse|" + what, False)
        wrote_index = any(p.endswith("x.par2") or p.endswith(".par2") and "/x." in p for p in pi["changed"])
        # (a single empty input makes the pinned code panic in the coder constructor; the model says so too and
        #  no property speaks about Create crashing, so only "accepted" and "differs from the model" are reported)
        if pi["res"] == "ok" or pi["res"] == "crash":
            report("Create did not refuse: %s -> %s" % (what, i[:80]), {"lines": [line], "impl": i[:800], "model": m[:800], "class": {"refuse": what}})
        elif L.canon(i, "mem") != L.canon(m, "mem"):
            report("Create refusal differs from the model: %s impl=%s model=%s" % (what, i[:80], m[:80]), {"lines": [line], "impl": i[:800], "model": m[:800], "class": {"refuse": what}}, nf=True)
    ctx.report_genlink(gen_fail, "GoLinkC05")
    return ctx.finish(
        "proof",
        rule="input sets with names in sub-directories and of lengths not divisible by 4, sizes around the slice size and around 16384 bytes, 1-12 files, slice sizes 4/8/64/2000, recovery-block counts 1,2,3,4,7,8,16,100,300, >256 slices, a 300-byte relative name, goroutines 1-7, in memory and on a real directory; each set's output files are judged by the extracted specification-side validator (valid_set) and compared byte for byte with the model writer; plus the inputs Create must refuse; non-trivial = at least two files or two slices",
        extra={"input_distribution": dist,
               "predicate": "valid_set: back-to-back packets with magic/length/MD5, one set id = MD5(main body), main body = slice size, count, ascending file ids of the inputs, a creator packet in every file, exact FileDesc and IFSC bodies for every input, every recovery block = sum_i slice_i*c_i^e with the specification's constants and reduced carry-less multiplication, exponents 0..n-1 exactly once, index free of recovery packets",
               "compared": "changed files (bytes) and outcome class vs the extracted model writer"})
