"""C16 — slices are found at any byte offset: every edit position x insertion/deletion length."""
import json
from . import p2lib as L
from . import par2common as P


def surviving(S, n, kind, pos, k):
    """indices of original slices that still exist contiguously after the edit (python oracle, content-blind)"""
    ns = (n + S - 1) // S
    out = []
    for i in range(ns):
        s, e = i * S, min((i + 1) * S, n)
        partial = (e - s) < S          # the last slice, zero-padded: it must stay at end of file
        if kind == "ins":
            ok = (e <= pos and not partial) or s >= pos
        else:
            ok = e <= pos or s >= pos + k
        out.append(ok)
    return out


def shifted(S, n, kind, pos, k, surv):
    """does some surviving slice sit at a different offset than before?"""
    for i, ok in enumerate(surv):
        if ok and i * S >= (pos if kind == "ins" else pos + k) and k % S != 0:
            return True
    return False


def run(ctx):
    ctx.check_props()
    gen_fail = ctx.genlink_goarith("GoLinkC16")    # the Go arithmetic / constants are re-translated from the source and the GEN_* theorems re-checked
    model = ctx.build_model()
    vh = ctx.build_harness()
    rng = ctx.rng
    thorough = ctx.tier == "thorough"
    if ctx.replay:
        r = json.load(open(ctx.replay))
        impl, mod = P.run_both(ctx, vh, model, r["lines"])
        for l, i, m in zip(r["lines"], impl, mod):
            print("impl :", i[:300]); print("model:", m[:300])
            if i != m:
                ctx.violation("replay: implementation and model differ", {"lines": [l], "impl": i[:3000], "model": m[:3000]})
        return ctx.finish("proof", rule="replay")
    sets = []
    for S, nsl in ((4, 5), (8, 4), (12, 3)) + (((64, 3),) if thorough else ()):
        for r_ in (0, 1, S - 1):
            for kind in ("random", "lowent", "dupslices"):
                n = nsl * S + r_
                files = {"f.bin": L.gen_content(rng, kind, n, S), "other.bin": L.gen_content(rng, "random", S + 1)}
                ps = P.PSet(files, S, 3, g=rng.choice([1, 2]), tag="%s S=%d n=%d" % (kind, S, n))
                ps.kind = kind
                sets.append(ps)
    # one 64-byte-slice set with random edits in the quick tier
    ps = P.PSet({"f.bin": L.gen_content(rng, "random", 64 * 4 + 9), "other.bin": L.gen_content(rng, "random", 70)}, 64, 3, tag="random S=64")
    ps.kind = "random"
    sets.append(ps)
    for S_ in (4100,) + ((8196, 4096, 4092) if thorough else ()):
        ps = P.PSet({"f.bin": L.gen_content(rng, "random", 3 * S_ + 17), "other.bin": L.gen_content(rng, "random", S_ + 1)}, S_, 2, g=1, tag="random S=%d" % S_)
        ps.kind = "random"; ps.sparse_edits = True
        sets.append(ps)
    created = P.create_all(ctx, vh, model, sets)
    cases = []
    for ps, line, i, m in created:
        if i != m or ps.created is None:
            ctx.violation("Create differs from the model or failed (%s)" % ps.tag, {"lines": [line], "impl": i[:2000], "model": m[:2000], "class": {"op": "create"}}, no_failing_input=True)
            continue
        S = ps.slice
        d = ps.files["f.bin"]
        n = len(d)
        p = ps.paths["f.bin"]
        ks = [1, 2, S - 1, S, S + 1, 2 * S + 3]
        positions = range(0, n + 1)
        if S == 64 and not thorough:
            positions = sorted(rng.sample(range(0, n + 1), 24))
            ks = [1, S - 1, S + 1]
        if getattr(ps, "sparse_edits", False):
            positions = [0, 1, S - 1, S + 5, n]
            ks = [1, 3, S + 1]
        for pos in positions:
            for k in ks:
                for kind in ("ins", "del"):
                    if kind == "del" and pos + k > n:
                        continue
                    if kind == "ins":
                        nd = d[:pos] + L.gen_content(rng, "random", k) + d[pos:]
                    else:
                        nd = d[:pos] + d[pos + k:]
                    if not nd:
                        continue
                    fs = dict(ps.created)
                    fs[p] = nd
                    surv = surviving(S, n, kind, pos, k)
                    cases.append({"set": ps, "edit": (kind, pos, k), "surv": surv, "fs": fs,
                                  "vline": L.line_verify("p2", "mem", ps.index, 1, fs)})
        # content of f.bin turns up under the other file's name (and vice versa)
        fs = dict(ps.created)
        fs[p], fs[ps.paths["other.bin"]] = fs[ps.paths["other.bin"]], fs[p]
        cases.append({"set": ps, "edit": ("swap", 0, 0), "surv": [True] * ((n + S - 1) // S), "fs": fs,
                      "vline": L.line_verify("p2", "mem", ps.index, 1, fs)})
    # a lost file whose slices survive only INSIDE ANOTHER, fully intact protected file (a twin with the same content): found
    # "wherever they lie" includes there.  (Content embedded at an odd offset of an intact file overlaps that file's own
    # surviving slices, which the property excludes - and the scanner indeed steps over it.)
    tsets = []
    for S in (4, 8) + ((12, 64) if thorough else ()):
        x = L.gen_content(rng, "random", 3 * S + 2)
        ts = P.PSet({"f.bin": x, "twin.bin": x, "other.bin": L.gen_content(rng, "random", S + 1)}, S, 2, g=1, tag="twin S=%d" % S)
        ts.kind = "random"; tsets.append(ts)
    for ps, line, i, m in P.create_all(ctx, vh, model, tsets):
        if i != m or ps.created is None:
            ctx.violation("Create differs from the model or failed (%s)" % ps.tag, {"lines": [line], "impl": i[:2000], "model": m[:2000], "class": {"op": "create"}}, no_failing_input=True)
            continue
        fs = dict(ps.created); del fs[ps.paths["f.bin"]]
        total = sum((len(d_) + ps.slice - 1) // ps.slice for d_ in ps.files.values())
        cases.append({"set": ps, "edit": ("swap", 1, 0), "surv": [True] * ((len(ps.files["f.bin"]) + ps.slice - 1) // ps.slice), "fs": fs, "need": total,
                      "vline": L.line_verify("p2", "mem", ps.index, 1, fs)})
    # periodic content: the slices "abab","abcd" of "abababcd" both survive, disjoint, when "ab" is prepended ("abab" at 0,
    # 2 or 4; "abcd" at 6) - but a scan that takes the first match and steps on by a slice takes "abab" at 0 and at 4, and
    # the latter overlaps the only copy of "abcd".  Judged by an oracle that looks for ANY choice of disjoint occurrences.
    per = P.PSet({"f.bin": b"abababcd", "other.bin": b"zyxwv"}, 4, 1, g=1, tag="periodic S=4")
    per.kind = "periodic"
    for ps, line, i, m in P.create_all(ctx, vh, model, [per]):
        if ps.created is not None:
            fs = dict(ps.created); fs[ps.paths["f.bin"]] = b"ab" + ps.files["f.bin"]
            cases.append({"set": ps, "edit": ("ins", 0, 2), "surv": [True, True], "fs": fs, "need": 4, "disjoint_oracle": True,
                          "vline": L.line_verify("p2", "mem", ps.index, 1, fs)})
    vi, vm = P.run_both(ctx, vh, model, [c["vline"] for c in cases])
    rep = [0]

    def report(msg, obj, nf=False):
        if rep[0] < 6:
            rep[0] += 1
            ctx.violation(msg, obj, no_failing_input=nf)

    dist = {"content": {}, "slice": {}, "edits": {"ins": 0, "del": 0, "swap": 0}, "shifted_survivors": 0}
    repairs = []
    for c, a, b in zip(cases, vi, vm):
        ps = c["set"]
        kind, pos, k = c["edit"]
        dist["content"][ps.kind] = dist["content"].get(ps.kind, 0) + 1
        dist["slice"][str(ps.slice)] = dist["slice"].get(str(ps.slice), 0) + 1
        dist["edits"][kind] += 1
        nontriv = kind == "swap" or shifted(ps.slice, len(ps.files["f.bin"]), kind, pos, k, c["surv"])
        dist["shifted_survivors"] += nontriv
        ctx.count("%s|%s|%d|%d" % (ps.tag, kind, pos, k), nontriv)
        pa, pb = L.parse_result(a), L.parse_result(b)
        replay = {"lines": [c["vline"]], "set": ps.tag, "edit": list(c["edit"]), "impl": a[:1500], "model": b[:1500],
                  "class": {"edit": kind}}
        ca = P.counts_of(pa)
        if pa["res"] != "ok" or ca is None:
            report("Verify failed on an edited file (%s, edit %s): %s" % (ps.tag, c["edit"], a[:120]), replay)
            continue
        # python oracle (content-blind): every slice that survives contiguously must be usable.
        # With low-entropy / duplicate content an earlier accidental match may shadow a survivor; there the
        # proved scan of the model decides (C16_found's hypothesis), so the oracle is applied to random content only.
        n_other = (len(ps.files["other.bin"]) + ps.slice - 1) // ps.slice
        need = c.get("need", sum(c["surv"]) + n_other)
        if c.get("disjoint_oracle") and ca["usable"] < need:
            report("%d slices survive disjointly (for some choice of their occurrences) but only %d are counted usable (%s, edit %s): the scan takes the first match and steps over the rest" %
                   (need, ca["usable"], ps.tag, c["edit"]), dict(replay, **{"class": {"kind": "greedy-scan-shadowing", "witness": "abababcd/S=4/prepend ab"}}))
            continue
        if ps.kind == "random" and ca["usable"] < need:
            report("%d slices survive the edit contiguously but only %d are counted usable (%s, edit %s)" %
                   (need, ca["usable"], ps.tag, c["edit"]), replay)
            continue
        if a != b:
            report("Verify differs from the proved scan (%s, edit %s): impl=%s model=%s" %
                   (ps.tag, c["edit"], a.split(" trace=")[0], b.split(" trace=")[0]), replay, nf=True)
            continue
        if nontriv and len(ctx.samples) < 5 and pos in (1, 5):
            ctx.sample({"set": ps.tag, "edit": list(c["edit"]), "surviving": sum(c["surv"]), "verify": a.split(" trace=")[0]})
        # Repair with exactly as many blocks as unusable slices must restore the file without consuming more
        if 0 < ca["unusable"] <= 3 and (rng.random() < (0.06 if not thorough else 0.3)):
            keep = []
            have = 0
            for v in ps.volumes:          # gopar volumes: 1, 2 blocks
                nb = P.vol_blocks(v)
                if have + nb <= ca["unusable"]:
                    keep.append(v); have += nb
            if have == ca["unusable"]:
                _, fs2 = P.drop_volumes(rng, ps, c["fs"], keep=keep)
                repairs.append((c, ca["unusable"], fs2, L.line_repair("p2", "mem", ps.index, rng.random() < 0.5, 1, fs2)))
    if repairs:
        ri, rm = P.run_both(ctx, vh, model, [r[3] for r in repairs])
        for (c, un, fs2, line), x, y in zip(repairs, ri, rm):
            ps = c["set"]
            px = L.parse_result(x)
            ctx.count("repair|" + line[-40:], True)
            after = L.apply_changed(fs2, px["changed"])
            replay = {"lines": [line], "set": ps.tag, "edit": list(c["edit"]), "impl": x[:1500], "model": y[:1500], "class": {"edit": "repair"}}
            if px["res"] != "ok" and L.parse_result(y)["res"] == "ok":
                report("Repair with exactly %d blocks for %d unusable slices failed: %s (%s, edit %s)" % (un, un, px["res"], ps.tag, c["edit"]), replay)
            elif px["res"] == "ok" and P.originals_ok(ps, after):
                report("Repair succeeded but files are wrong (%s, edit %s)" % (ps.tag, c["edit"]), replay)
            elif x != y:
                report("Repair differs from the model (%s, edit %s)" % (ps.tag, c["edit"]), replay, nf=True)
    dist["repairs_at_exact_capacity"] = len(repairs)
    ctx.report_genlink(gen_fail, "GoLinkC16")
    return ctx.finish(
        "proof",
        rule="for slice sizes 4, 8, 12 (and 64 sampled; thorough: 64 fully) x file lengths m*S+{0,1,S-1} x content {random, low-entropy, duplicate slices}: EVERY edit position 0..len x insertion and deletion lengths {1,2,S-1,S,S+1,2S+3}, plus the content under another file's name; Verify's counts compared with the proved scan; for random content additionally a content-blind oracle (slices not overlapping the edit must be usable); sampled Repairs with exactly as many blocks as unusable slices; non-trivial = some surviving slice sits at a shifted offset",
        exhaustive=True,
        extra={"input_distribution": dist, "exhaustive_over": "edit positions and lengths for slice sizes 4, 8, 12",
               "compared": "ShardCounts (usable/unusable/recovery/misplaced, needed, possible), I/O trace vs extracted model"})
