"""C17 — Create is deterministic and invariant under irrelevant variation."""
import concurrent.futures
import itertools
import json
import posixpath
from . import p2lib as L
from . import par2common as P
from . import par1common as P1
from . import c20

SETDIR = c20.SETDIR


def spellings(path_v, cwd):
    rel = posixpath.relpath(path_v, cwd)
    d, b = posixpath.split(rel)
    out = {"rel": rel, "abs": path_v, "dot": "./" + rel, "dslash": rel.replace("/", "//") if "/" in rel else "./" + "/" + rel if False else rel,
           "updown": (d + "/" if d else "") + "../" + posixpath.basename(posixpath.dirname(posixpath.join(cwd, rel))) + "/" + b}
    out["absdots"] = posixpath.dirname(path_v) + "/./" + posixpath.basename(path_v)
    return out


def run(ctx):
    ctx.check_props()
    model = ctx.build_model()
    vh = ctx.build_harness()
    par = ctx.build_par_cli()
    rng = ctx.rng
    thorough = ctx.tier == "thorough"
    if ctx.replay:
        r = json.load(open(ctx.replay))
        print(json.dumps(r)[:2000])
        return ctx.finish("proof", rule="replay (inspect the file)")
    rep = [0]

    def report(msg, obj, nf=False):
        if rep[0] < 6:
            rep[0] += 1
            ctx.violation(msg, obj, no_failing_input=nf)

    dist = {"permutations": 0, "goroutines": 0, "repetitions": 0, "cli_cwd_spelling": 0, "par1": 0}
    # ---------------- library level (in memory): permutations, goroutine counts, repetitions ----------------
    sets = []
    for k in range(3 if not thorough else 8):
        nf = rng.choice([3, 4])
        names = rng.sample(["a.dat", "b.bin", "sub/c.txt", "sub/deep/d", "e e.x", "g"], nf)
        files = {n: L.gen_content(rng, rng.choice(["random", "dupslices"]), rng.choice([5, 9, 16, 33]), 4) for n in names}
        sets.append(P.PSet(files, 4, rng.choice([2, 3, 5]), g=1))
    sets.append(P.PSet({"x%d" % i: L.gen_content(rng, "random", 7 + i) for i in range(6)}, 8, 4, g=1, tag="6 files, sampled permutations"))
    # slice sizes that are not a multiple of the 16-byte chunk unit (the goroutine split clips the last chunk)
    sets.append(P.PSet({"p": L.gen_content(rng, "random", 40 * 3 + 5), "q": L.gen_content(rng, "random", 41)}, 40, 3, g=1, tag="slice 40"))
    sets.append(P.PSet({"p": L.gen_content(rng, "random", 100 * 2 + 9), "q": L.gen_content(rng, "random", 100)}, 100, 3, g=1, tag="slice 100"))
    # slice sizes that are multiples of 16 with as many (or fewer) goroutines as 16-byte units: a trailing chunk of exactly 16 bytes
    sets.append(P.PSet({"p": L.gen_content(rng, "random", 48 * 2 + 7), "q": L.gen_content(rng, "random", 48)}, 48, 3, g=1, tag="slice 48"))
    sets.append(P.PSet({"p": L.gen_content(rng, "random", 80 + 3), "q": L.gen_content(rng, "random", 79)}, 80, 2, g=1, tag="slice 80"))
    # a slice size whose per-goroutine byte ranges exceed 32 KiB and are not a multiple of it
    sets.append(P.PSet({"p": L.gen_content(rng, "random", 40000 * 2 + 11)}, 40000, 2, g=1, tag="slice 40000"))
    lines, meta = [], []
    for ps in sets:
        ps.bystanders = {}
        names = list(ps.files)
        perms = list(itertools.permutations(names)) if len(names) <= 4 else [tuple(rng.sample(names, len(names))) for _ in range(20)]
        ref = ps.create_line("mem", order=names, g=1)
        lines.append(ref); meta.append((ps, "reference", None))
        for pm in perms:
            lines.append(ps.create_line("mem", order=pm, g=1)); meta.append((ps, "perm", list(pm)))
        for g in (2, 3, 4, 5, 6, 7, 8, 32):
            lines.append(ps.create_line("mem", order=names, g=g)); meta.append((ps, "g", g))
        lines.append(ref); meta.append((ps, "repeat", None))
        lines.append(ps.create_line("real", order=names, g=3)); meta.append((ps, "real-g3", None))
    impl = ctx.run_lines(vh, lines); mod = ctx.run_lines(model, lines)
    refs = {}
    for (ps, kind, arg), line, i, m in zip(meta, lines, impl, mod):
        pi = L.parse_result(i)
        ctx.count("lib|%s|%s|%s" % (id(ps), kind, arg), kind != "reference")
        replay = {"lines": [line], "variation": [kind, arg], "impl": i[:1200], "model": m[:1200], "class": {"kind": kind}}
        if pi["res"] != "ok":
            report("Create failed (%s %s): %s" % (kind, arg, i[:80]), replay); continue
        if kind == "reference":
            refs[id(ps)] = pi["changed"]
        ref = refs.get(id(ps))
        if ref is not None and pi["changed"] != ref:
            diff = sorted(set(pi["changed"]) ^ set(ref)) or [p for p in ref if pi["changed"].get(p) != ref[p]]
            report("Create output depends on %s: files %s differ from the reference run (same contents, names, slice size, block count)" %
                   ({"perm": "the order of the input list %s" % arg, "g": "the goroutine count %s" % arg, "repeat": "the run (repetition)", "real-g3": "the file system / goroutine count"}.get(kind, kind), diff), replay)
            continue
        mode = "real" if kind == "real-g3" else "mem"
        pm_ = L.parse_result(m)
        if pm_["changed"] != pi["changed"] or pm_["res"] != pi["res"]:
            report("Create differs from the model (%s %s)" % (kind, arg), replay, True)
        dist["permutations"] += kind == "perm"; dist["goroutines"] += kind in ("g", "real-g3"); dist["repetitions"] += kind == "repeat"
    # ---------------- Create over EXISTING, longer output files (a previous, larger set): same bytes as in a fresh directory ----------------
    olines, ometa = [], []
    for ps in sets:
        ref = refs.get(id(ps))
        if not ref:
            continue
        for mode in ("real", "mem"):
            fs0 = dict(ps.input_fs())
            for pth, data in ref.items():
                fs0[pth] = data + L.gen_content(rng, "random", 37)          # stale, longer content at every output path
            fs0[P.DIR + "/" + ps.base + ".vol90+09.par2"] = b"stale volume of an older, larger set"
            olines.append(L.line_create("p2", mode, ps.index, ps.slice, ps.nparity, 2, [ps.paths[n] for n in ps.files], fs0))
            ometa.append((ps, mode, fs0, ref))
    oi = ctx.run_lines(vh, olines)
    for (ps, mode, fs0, ref), line, i in zip(ometa, olines, oi):
        pi = L.parse_result(i)
        ctx.count("over|%s|%s" % (id(ps), mode), True)
        dist["over_existing_outputs"] = dist.get("over_existing_outputs", 0) + 1
        after = L.apply_changed(fs0, pi["changed"])
        bad = [pth for pth, data in ref.items() if after.get(pth) != data]
        replay = {"lines": [line], "variation": ["over-existing", mode], "impl": i[:1200], "class": {"kind": "over-existing"}}
        if pi["res"] != "ok":
            report("Create over existing output files failed (%s): %s" % (mode, i[:80]), replay)
        elif bad:
            report("Create over existing (longer) output files leaves different bytes than in a fresh directory: %s (%s)" % (bad, mode), replay)
    # ---------------- PAR1 Creates one after the other in ONE process: a set with one long file, then sets with unequal sizes
    # (what a first call leaves in a buffer must not leak into the next) - each must equal the model's bytes ----------------
    p1seq = [P1.line_create("mem", P1.DIR + "/s%d.par" % k_, 2, [P1.DIR + "/" + n_ for n_, _ in fl_], {P1.DIR + "/" + n_: d_ for n_, d_ in fl_})
             for k_, fl_ in enumerate([[("a", L.gen_content(rng, "random", 9000)), ("b", L.gen_content(rng, "random", 9000))],
                                       [("a", L.gen_content(rng, "random", 5000)), ("b", L.gen_content(rng, "random", 100)), ("c", b"x")],
                                       [("a", L.gen_content(rng, "random", 4100)), ("b", L.gen_content(rng, "random", 4097))]])]
    p1i = ctx.run_lines(vh, p1seq, shards=1); p1m = ctx.run_lines(model, p1seq)
    for k_, (line_, i_, m_) in enumerate(zip(p1seq, p1i, p1m)):
        ctx.count("par1-sequence|%d" % k_, k_ > 0)
        dist["par1"] += 1
        if L.canon(i_, "mem") != L.canon(m_, "mem"):
            report("PAR1 Create number %d of a sequence in one process differs from what the same Create gives by itself (the model): %s" % (k_ + 1, i_[:80]),
                   {"lines": p1seq[:k_ + 1], "impl": i_[:800], "model": m_[:800], "class": {"kind": "par1-sequence"}})
    # ---------------- several Creates in ONE process, from different current directories, relative paths ----------------
    # (a result that depends on what the process did before - a working directory looked up once, a table built once -
    # is invisible to one call per process)
    sq_in = {SETDIR + "/n1.dat": L.gen_content(rng, "random", 23), SETDIR + "/sub/n2.dat": L.gen_content(rng, "random", 9),
             "/elsewhere/n1.dat": L.gen_content(rng, "random", 17), "/elsewhere/sub/n2.dat": L.gen_content(rng, "random", 9)}
    # two files with the same relative name, length and first 16 KiB (hence the same PAR2 file id) but different tails
    head_ = L.gen_content(rng, "random", 16384)
    sq_in["/elsewhere/big.bin"] = head_ + L.gen_content(rng, "random", 300)
    sq_in[SETDIR + "/big.bin"] = head_ + L.gen_content(rng, "random", 300)
    steps = [("/elsewhere", "big1.par2", 4096, 1, 1, ["big.bin"]), (SETDIR, "big2.par2", 4096, 1, 1, ["big.bin"]),
             ("/elsewhere", "first.par2", 4, 2, 1, ["n1.dat"]),
             (SETDIR, "out.par2", 8, 3, 2, ["n1.dat", "sub/n2.dat"]),
             ("/elsewhere/sub", "../third.par2", 4, 1, 1, ["n2.dat", "../n1.dat"])]
    # an input that is a symbolic link: what is protected is the NAME given and the content found there
    blob_ = L.gen_content(rng, "random", 29)
    sq_in["/elsewhere/blob-0001.bin"] = blob_
    sq_real = dict(sq_in); sq_real["/elsewhere/link.txt"] = b"VHSYMLINK:blob-0001.bin"
    sq_in["/elsewhere/link.txt"] = blob_
    steps.append(("/elsewhere", "linked.par2", 8, 1, 1, ["link.txt", "n1.dat"]))
    toks = ["p2", "createseq", "real", str(len(steps))]
    for cwd_, par_, S_, np_, g_, fl_ in steps:
        toks += [L.hx(cwd_), L.hx(par_), str(S_), str(np_), str(g_), str(len(fl_))] + [L.hx(f_) for f_ in fl_]
    sq_line = " ".join(toks + L.fs_tokens(sq_real, dirs=["/elsewhere/sub", SETDIR + "/sub"]))
    # the same three Creates, each by itself with absolute paths (implementation and model)
    abs_lines = [L.line_create("p2", "mem", posixpath.normpath(posixpath.join(cwd_, par_)), S_, np_, g_,
                               [posixpath.normpath(posixpath.join(cwd_, f_)) for f_ in fl_], sq_in) for cwd_, par_, S_, np_, g_, fl_ in steps]
    sq_res = ctx.run_lines(vh, [sq_line])[0]
    ai, am = P.run_both(ctx, vh, model, abs_lines)
    want = {}
    for i_, m_ in zip(ai, am):
        if L.canon(i_, "mem") != L.canon(m_, "mem"):
            report("Create differs from the model (absolute paths)", {"lines": abs_lines, "impl": i_[:800], "model": m_[:800], "class": {"kind": "sequence"}}, True)
        want.update(L.parse_result(m_)["changed"])
    psq = L.parse_result(sq_res)
    ctx.count("sequence|" + L.hx(L.md5(sq_line.encode())), True)
    dist["create_sequences_in_one_process"] = 1
    if psq["res"] != "|".join(["ok"] * len(steps)) or psq["changed"] != want:
        diff = sorted(set(k_ for k_ in set(psq["changed"]) | set(want) if psq["changed"].get(k_) != want.get(k_)))
        report("Creates run one after the other in one process, each from its own current directory with relative paths, do not give what each gives by itself: results %s, differing files %s" % (psq["res"], diff[:6]),
               {"lines": [sq_line], "mode": "real", "impl": sq_res[:1500], "expected_files": sorted(want), "class": {"kind": "sequence"}})
    # ---------------- an input that is one of the set's own files, in EVERY spelling: relative to the current directory, with
    # dot-dot, absolute, mixed with the index path's spelling - refused alike, inputs untouched ----------------
    own_in = {SETDIR + "/n1.dat": L.gen_content(rng, "random", 23), SETDIR + "/own.extra.par2": b"a file of mine named like a recovery file"}
    for k_, (cwd_, par_, files_) in enumerate([(SETDIR, "own.par2", ["n1.dat", "own.extra.par2"]),
                                                (SETDIR, SETDIR + "/own.par2", ["n1.dat", "own.extra.par2"]),
                                                (SETDIR, "own.par2", ["n1.dat", SETDIR + "/own.extra.par2"]),
                                                ("/top", "set/own.par2", ["set/n1.dat", "../top/set/own.extra.par2"]),
                                                ("/elsewhere", SETDIR + "/own.par2", [SETDIR + "/n1.dat", "../top/set/own.extra.par2"])]):
        toks_ = ["p2", "createseq", "real", "1", L.hx(cwd_), L.hx(par_), "4", "2", "1", str(len(files_))] + [L.hx(f_) for f_ in files_]
        line_ = " ".join(toks_ + L.fs_tokens(own_in, dirs=["/elsewhere", "/top", SETDIR]))
        res_ = L.parse_result(ctx.run_lines(vh, [line_])[0])
        ctx.count("own-file-spelling|%d" % k_, True)
        dist["own_file_spellings"] = dist.get("own_file_spellings", 0) + 1
        if res_["res"] == "ok" or res_["changed"]:
            report("Create with one of the set's own recovery-file names among the inputs (cwd %s, index %r, inputs %s) returned %s and changed %s: the same input set must be refused in every spelling" %
                   (cwd_, par_, files_, res_["res"], sorted(res_["changed"])), {"lines": [line_], "mode": "real", "class": {"kind": "own-file-spelling"}})
    # ---------------- CLI level (real directories): current directory x spelling ----------------
    inputs = {SETDIR + "/n1.dat": L.gen_content(rng, "random", 11), SETDIR + "/sub/n2.dat": L.gen_content(rng, "random", 6), SETDIR + "/n3": L.gen_content(rng, "lowent", 13)}
    fpaths = list(inputs)
    cases = []
    for extn in (".par2", ".par"):
        for cwd in (SETDIR, "/top", "/elsewhere"):
            for sp in ("rel", "abs", "dot", "dslash", "updown", "absdots"):
                if extn == ".par":
                    files = [SETDIR + "/n1.dat", SETDIR + "/n3"]           # PAR1 expects the files beside the index
                else:
                    files = fpaths
                pspell = spellings(SETDIR + "/out" + extn, cwd)[sp if sp != "updown" else "rel"]
                args = ["c", "-c", "3"] + (["-s", "4"] if extn == ".par2" else []) + [pspell] + [spellings(f, cwd)[sp] for f in files]
                for g in ((1, 5) if extn == ".par2" and sp == "rel" else (2,)):
                    cases.append((extn, cwd, sp, ["-g", str(g)] + args))

    def one(c):
        extn, cwd, sp, args = c
        return c20.run_par(par, cwd, args, inputs, dirs=[SETDIR, SETDIR + "/sub"])
    with concurrent.futures.ThreadPoolExecutor(12) as ex:
        res = list(ex.map(one, cases))
    mlines = [c20.model_line(c[1], "rel" if (c[0] == ".par" and c[2] in ("rel",)) else "abs", c[3], inputs) for c in cases]
    mres = ctx.run_lines(model, mlines)
    ref_out = {}
    for c, (code, changed, panicked, tail), m in zip(cases, res, mres):
        extn, cwd, sp, args = c
        ctx.count("cli|%s|%s|%s|%s" % (extn, cwd, sp, args[1]), True)
        dist["cli_cwd_spelling"] += 1
        dist["par1"] += extn == ".par"
        replay = {"argv": args, "cwd": cwd, "inputs_hex": {k: L.hx(v) for k, v in inputs.items()}, "exit": code, "tail": tail[-300:], "class": {"kind": "cli"}}
        if code != 0 or panicked:
            report("par create failed for cwd=%s spelling=%s: exit %d %s" % (cwd, sp, code, tail[-120:]), replay); continue
        if extn not in ref_out:
            ref_out[extn] = changed
        if changed != ref_out[extn]:
            diff = sorted(set(changed) ^ set(ref_out[extn])) or [p for p in changed if changed[p] != ref_out[extn].get(p)]
            report("Create output depends on the current directory / path spelling (cwd=%s, spelling=%s, goroutines %s): %s differ" % (cwd, sp, args[1], diff), replay)
            continue
        mcode, mchanged = c20.parse_model(m)
        comparable = extn == ".par2" or sp in ("rel", "abs")
        if comparable and (mcode != code or mchanged != changed):
            report("par create differs from the CLI model (cwd=%s, spelling=%s): model exit %s, files %s" % (cwd, sp, mcode, sorted(mchanged)), replay, True)
        if len(ctx.samples) < 5 and sp in ("updown", "dslash"):
            ctx.sample({"argv": args, "cwd": cwd, "written": sorted(changed)})
    return ctx.finish(
        "proof",
        rule="library Create in memory: ALL permutations of the input list for sets of 3-4 files (sampled for 6), goroutine counts 1/2/7/32, a repetition, a run on a real directory; the par binary: PAR2 and PAR1 create from current directory {set directory, parent, unrelated} x spelling {relative, absolute, ./x, doubled separators, a/../a/x, /abs/./x} x goroutine counts; every variant must be byte-identical to the reference run of the same set, and equal to the model; non-trivial = differs from the reference invocation",
        extra={"input_distribution": dist,
               "predicate": "all output files byte-identical to the reference run",
               "compared": "written files vs the extracted model (par2_create / cli_run with the current directory as a parameter)"})
