"""C18 — I/O failures are reported, never swallowed, and never worsen the data: a fault at every I/O call index."""
import json
from . import p2lib as L
from . import par2common as P
from . import par1common as P1
from . import c04


def run(ctx):
    ctx.check_props()
    model = ctx.build_model()
    vh = ctx.build_harness()
    if ctx.replay:
        r = json.load(open(ctx.replay))
        impl = ctx.run_lines(vh, r["lines"]); mod = ctx.run_lines(model, r["lines"])
        for l, i, m in zip(r["lines"], impl, mod):
            print("impl :", i[:400]); print("model:", m[:400])
            if L.canon(i, "mem") != L.canon(m, "mem"):
                ctx.violation("replay: implementation and model differ", {"lines": [l]})
        return ctx.finish("proof", rule="replay")
    rng = ctx.rng
    thorough = ctx.tier == "thorough"
    rep = [0]

    def report(msg, obj, nf=False):
        kf = obj.get("class", {}).get("kind")
        if rep[0] < 8 or kf == "repair-rerun-after-inplace-overwrite":
            rep[0] += 1
            ctx.violation(msg, obj, no_failing_input=nf)

    # ---------------- scenarios: (format, op name, line builder taking sched, initial fs, originals) ----------------
    scen = []
    # PAR2 sets
    p2sets = [P.PSet({"a.dat": L.gen_content(rng, "random", 10), "b.dat": L.gen_content(rng, "random", 7), "sub/c": L.gen_content(rng, "random", 5)}, 4, 3, g=1),
              P.PSet({"x": L.gen_content(rng, "random", 8), "y": L.gen_content(rng, "random", 8)}, 8, 1, g=2)]
    for ps in p2sets:
        ps.bystanders = {}
    P.create_all(ctx, vh, model, p2sets)
    for ps in p2sets:
        if ps.created is None:
            report("Create failed", {"class": {"op": "create"}}, True)
            continue
        names = list(ps.files)
        scen.append(("par2", "create", lambda sched, ps=ps: L.line_create("p2", "mem", ps.index, ps.slice, ps.nparity, 1, [ps.paths[n] for n in ps.files], ps.input_fs(), sched),
                     ps.input_fs(), ps))
        states = {"intact": dict(ps.created)}
        st = dict(ps.created); del st[ps.paths[names[0]]]; states["one missing"] = st
        st = dict(ps.created); st[ps.paths[names[0]]] = b"garbage!"; del st[ps.paths[names[1]]]; states["two damaged"] = st
        st = dict(ps.created); st[ps.paths[names[0]]], st[ps.paths[names[1]]] = st[ps.paths[names[1]]], st[ps.paths[names[0]]]; states["swapped"] = st
        st = dict(ps.created); st[ps.paths[names[0]]], st[ps.paths[names[1]]] = st[ps.paths[names[1]]], st[ps.paths[names[0]]]
        for v in ps.volumes:
            del st[v]
        states["swapped, no recovery files"] = st
        st = dict(ps.created); del st[ps.paths[names[0]]]; del st[ps.volumes[-1]]; states["one missing, a recovery file missing"] = st
        for sname, st in states.items():
            scen.append(("par2", "verify|" + sname, lambda sched, ps=ps, st=st: L.line_verify("p2", "mem", ps.index, 1, st, sched), st, ps))
            scen.append(("par2", "repair|" + sname, lambda sched, ps=ps, st=st: L.line_repair("p2", "mem", ps.index, False, 1, st, sched), st, ps))
    # PAR1 sets
    p1sets = [c04.Set1([("p.dat", L.gen_content(rng, "random", 9)), ("q.dat", L.gen_content(rng, "random", 14)), ("r", L.gen_content(rng, "random", 3))], 2)]
    c04.create_all(ctx, vh, model, p1sets, lambda *a, **k: None)
    for s in p1sets:
        if s.created is None:
            report("PAR1 Create failed on the scenario set: no PAR1 fault scenario can be run", {"class": {"op": "create"}}, True)
            continue
        names = [n for n, _ in s.files]
        scen.append(("par1", "create", lambda sched, s=s: P1.line_create("mem", s.index, s.nvol, [s.paths[n] for n, _ in s.files], s.input_fs(), sched), s.input_fs(), s))
        states = {"intact": dict(s.created)}
        st = dict(s.created); del st[s.paths[names[0]]]; states["one missing"] = st
        st = dict(s.created); del st[s.paths[names[0]]]; st[s.paths[names[1]]] = b"bad"; states["two damaged"] = st
        st = dict(s.created); del st[s.paths[names[2]]]; del st[s.volumes[0]]; states["one missing, a volume missing"] = st
        for sname, st in states.items():
            scen.append(("par1", "verify|" + sname, lambda sched, s=s, st=st: P1.line_verify("mem", s.index, True, st, sched), st, s))
            scen.append(("par1", "repair|" + sname, lambda sched, s=s, st=st: P1.line_repair("mem", s.index, False, st, sched), st, s))
    # ---------------- fault-free runs: the traces ----------------
    base_lines = [sc[2](()) for sc in scen]
    bi = ctx.run_lines(vh, base_lines); bm = ctx.run_lines(model, base_lines)
    cases = []
    for sc, line, i, m in zip(scen, base_lines, bi, bm):
        fmt, opname, mk, fs0, owner = sc
        pi = L.parse_result(i)
        ctx.count("base|%s|%s|%s" % (fmt, opname, id(owner)), False)
        if L.canon(i, "mem") != L.canon(m, "mem"):
            report("fault-free %s %s differs from the model: impl=%s model=%s" % (fmt, opname, i[:100], m[:100]),
                   {"lines": [line], "impl": i[:1500], "model": m[:1500], "class": {"kind": "base"}}, True)
            continue
        trace = pi["trace"]
        for idx, ev in enumerate(trace):
            # "n": an opaque error; "p" / "x": the same fault reported as a permission / already-exists error of the os
            # package (only "does not exist" may be treated as damage)
            kinds = ["n", "p"] + (["x", "d", "a"] if ev.startswith("R:") else [])      # d: ENOTDIR, a: EAGAIN (a timeout-class error)
            if ev.startswith("W:"):
                # size of the data being written is not in the trace; torn lengths 0, 1 and two larger ones
                kinds += ["t0", "t1", "t7", "t80", "t300", "t100000"]     # t80/t300: torn after one or a few complete packets / the header
            for k in kinds:
                cases.append({"sc": sc, "base": pi, "baseline": line, "sched": [(idx, k)], "line": mk([(idx, k)]), "ev": ev})
        if thorough and len(trace) >= 2:
            for _ in range(6):
                a, b = sorted(rng.sample(range(len(trace)), 2))
                cases.append({"sc": sc, "base": pi, "baseline": line, "sched": [(a, "n"), (b, "n")], "line": mk([(a, "n"), (b, "n")]), "ev": trace[a]})
    fi = ctx.run_lines(vh, [c["line"] for c in cases]); fm = ctx.run_lines(model, [c["line"] for c in cases])
    # ---------------- reruns without the fault, from the state the faulted run left behind ----------------
    reruns = []
    dist = {"op": {}, "fault_kind": {}, "event": {}, "reruns": 0, "rerun_equal_to_fault_free": 0}
    for c, i, m in zip(cases, fi, fm):
        fmt, opname, mk, fs0, owner = c["sc"]
        pi = L.parse_result(i)
        kind = "+".join(k for _, k in c["sched"])
        dist["op"][fmt + " " + opname.split("|")[0]] = dist["op"].get(fmt + " " + opname.split("|")[0], 0) + 1
        dist["fault_kind"][kind] = dist["fault_kind"].get(kind, 0) + 1
        dist["event"][c["ev"][0]] = dist["event"].get(c["ev"][0], 0) + 1
        ctx.count("%s|%s|%s|%s" % (fmt, opname, id(owner), c["sched"]), True)
        replay = {"lines": [c["line"]], "format": fmt, "op": opname, "fault": c["sched"], "at_event": c["ev"][:80], "impl": i[:1500], "model": m[:1500],
                  "class": {"kind": "fault"}}
        if pi["res"] in ("panic", "crash"):
            report("crash with an I/O fault (%s %s, fault %s at %s)" % (fmt, opname, c["sched"], c["ev"][:40]), replay); continue
        # a fault was hit (the index is within the fault-free trace): the operation must report an error
        if pi["res"] == "ok":
            report("an I/O fault was swallowed: %s %s returned success with fault %s at %s" % (fmt, opname, c["sched"], c["ev"][:60]), replay); continue
        if pi["res"] not in ("err:io",) and c["ev"][0] in "RLW":
            # the error must be reported as an error; its class should be the I/O failure itself
            pass
        # nothing that was not being written may change; completed writes must carry what the fault-free run wrote
        torn_path = None
        ev = pi["trace"][-1] if pi["trace"] else ""
        if ev.startswith("W:") and ev.endswith(":0"):
            torn_path = L.unhx(ev.split(":")[1]).decode("latin-1")
        bad = None
        for p, d in pi["changed"].items():
            if p == torn_path:
                continue
            if c["base"]["changed"].get(p) != d:
                bad = "%s was altered although it was not the file being written when the fault hit" % p
        if opname.startswith("repair"):
            for p, d in pi["changed"].items():
                if p != torn_path and p not in pi["repaired"]:
                    bad = "%s was written completely but is not listed in the (partial) result of the failed Repair" % p
        for p in pi["repaired"]:
            if p == torn_path or L.apply_changed(fs0, pi["changed"]).get(p) != L.apply_changed(fs0, c["base"]["changed"]).get(p):
                bad = "%s is reported as repaired although its write did not complete" % p
        if bad:
            report("%s (%s %s, fault %s)" % (bad, fmt, opname, c["sched"]), replay); continue
        if L.canon(i, "mem") != L.canon(m, "mem"):
            report("faulted run differs from the model (%s %s, fault %s): impl=%s model=%s" % (fmt, opname, c["sched"], i.split(" trace=")[0], m.split(" trace=")[0]), replay, True)
            continue
        after = L.apply_changed(fs0, pi["changed"])
        # rebuild the operation line on the new state, without faults
        if opname == "create":
            if fmt == "par2":
                rl = L.line_create("p2", "mem", owner.index, owner.slice, owner.nparity, 1, [owner.paths[n] for n in owner.files], after)
            else:
                rl = P1.line_create("mem", owner.index, owner.nvol, [owner.paths[n] for n, _ in owner.files], after)
        elif opname.startswith("verify"):
            rl = L.line_verify("p2", "mem", owner.index, 1, after) if fmt == "par2" else P1.line_verify("mem", owner.index, True, after)
        else:
            rl = L.line_repair("p2", "mem", owner.index, False, 1, after) if fmt == "par2" else P1.line_repair("mem", owner.index, False, after)
        torn = any(k.startswith("t") for _, k in c["sched"]) and torn_path is not None
        reruns.append((c, rl, after, torn, replay))
    rri = ctx.run_lines(vh, [r[1] for r in reruns]); rrm = ctx.run_lines(model, [r[1] for r in reruns])
    for (c, rl, after, torn, replay), i, m in zip(reruns, rri, rrm):
        fmt, opname, mk, fs0, owner = c["sc"]
        pi = L.parse_result(i)
        dist["reruns"] += 1
        final = L.apply_changed(after, pi["changed"])
        want = L.apply_changed(fs0, c["base"]["changed"])
        same = pi["res"] == c["base"]["res"] and final == want
        dist["rerun_equal_to_fault_free"] += same
        replay2 = dict(replay, lines=[c["line"], rl], rerun_impl=i[:1200], rerun_model=m[:1200])
        if L.canon(i, "mem") != L.canon(m, "mem"):
            report("rerun after a fault differs from the model (%s %s, fault %s)" % (fmt, opname, c["sched"]), replay2, True)
            continue
        if same:
            continue
        if torn:
            # a torn write may itself have destroyed data; the property exempts that when it exceeds the remaining capacity.
            # What must still hold: the rerun does not claim success while files are wrong.
            if pi["res"] == "ok" and opname.startswith("repair"):
                wrongfiles = [p for p, d in want.items() if final.get(p) != d]
                if wrongfiles:
                    report("rerun after a torn write reports success but %s differ" % wrongfiles, replay2)
            continue
        # no torn write: rerunning must complete as if the fault had never occurred
        if fmt == "par2" and opname.startswith("repair|swapped") and c["ev"].startswith("W:"):
            # Repair rewrites files in place, in order: a completed earlier write may have overwritten the only copy of
            # slices another file needs (swapped files, no spare block)  ->  recorded known finding
            # (identified by the state: PAR2, two files holding each other's content; any other rerun failure is reported)
            replay2["class"] = {"kind": "repair-rerun-after-inplace-overwrite", "state": "par2 swapped files"}
        report("after the fault is gone the rerun does not complete as the fault-free run does (%s %s, fault %s at %s): rerun %s, fault-free %s" %
               (fmt, opname, c["sched"], c["ev"][:50], i.split(" trace=")[0], c["base"]["res"]), replay2)
    # ---------------- REAL directory: failures the operating system itself produces ----------------
    # (the runs above go through the library's file-I/O interface with an injecting implementation; the DEFAULT implementation
    # - ioutil.ReadFile / ReadDir / WriteFile behind par2.defaultFileIO and par1.defaultFileIO - is only reached on a real
    # directory.  The harness runs as root, so permissions cannot fail; these can: a directory where a file is expected
    # (EISDIR on read and on write), a symbolic link that points to itself (ELOOP), a file where a directory is expected
    # (ENOTDIR).  "A file that does not exist is the only failure treated as damage": all of these must be ERRORS.)
    rcases = []
    for ps in p2sets:
        if ps.created is None:
            continue
        names = list(ps.files)
        victim = ps.paths[names[0]]
        st_dir = {k_: v_ for k_, v_ in ps.created.items() if k_ != victim}; st_dir[victim + "/keep"] = b"a directory stands where the file was"
        st_loop = dict(ps.created); st_loop[victim] = b"VHSYMLINK:" + victim.rsplit("/", 1)[1].encode()
        for sname, st in (("protected path is a directory", st_dir), ("protected path is a symlink to itself", st_loop)):
            rcases.append(("par2 verify|" + sname, L.line_verify("p2", "real", ps.index, 1, st, dirs=L.parent_dirs(ps.paths.values())), st, None))
            rcases.append(("par2 repair|" + sname, L.line_repair("p2", "real", ps.index, False, 1, st, dirs=L.parent_dirs(ps.paths.values())), st, None))
        # Create with a directory standing where an output file has to be written
        for out in [ps.index] + ps.volumes[:1]:
            fin = dict(ps.input_fs()); fin[out + "/keep"] = b"in the way"
            rcases.append(("par2 create|a directory at " + out.rsplit("/", 1)[1],
                           L.line_create("p2", "real", ps.index, ps.slice, ps.nparity, 1, [ps.paths[n] for n in ps.files], fin), fin, out))
    for s in p1sets:
        if s.created is None:
            continue
        names = [n for n, _ in s.files]
        victim = s.paths[names[0]]
        st_dir = {k_: v_ for k_, v_ in s.created.items() if k_ != victim}; st_dir[victim + "/keep"] = b"a directory stands where the file was"
        st_loop = dict(s.created); st_loop[victim] = b"VHSYMLINK:" + victim.rsplit("/", 1)[1].encode()
        for sname, st in (("protected path is a directory", st_dir), ("protected path is a symlink to itself", st_loop)):
            rcases.append(("par1 verify|" + sname, P1.line_verify("real", s.index, True, st, dirs=[P1.DIR]), st, None))
            rcases.append(("par1 repair|" + sname, P1.line_repair("real", s.index, False, st, dirs=[P1.DIR]), st, None))
        for out in [s.index] + s.volumes[:1]:
            fin = dict(s.input_fs()); fin[out + "/keep"] = b"in the way"
            rcases.append(("par1 create|a directory at " + out.rsplit("/", 1)[1],
                           P1.line_create("real", s.index, s.nvol, [s.paths[n] for n, _ in s.files], fin), fin, out))
    rres = ctx.run_lines(vh, [c[1] for c in rcases])
    for (desc, line, st, out), i in zip(rcases, rres):
        pi = L.parse_result(i)
        ctx.count("real|" + desc + "|" + L.hx(L.md5(line.encode())), True)
        dist["real_directory_os_failures"] = dist.get("real_directory_os_failures", 0) + 1
        replay = {"lines": [line], "mode": "real", "desc": desc, "impl": i[:1500], "class": {"kind": "real-directory"}}
        if pi["res"] in ("panic", "crash"):
            report("crash on a real directory (%s): %s" % (desc, pi.get("raw", "")[:100]), replay); continue
        if pi["res"] == "ok":
            report("an operating-system failure was swallowed on a real directory: %s returned success" % desc, replay); continue
        touched = [p_ for p_ in pi["changed"] if not (out and (p_ == out or p_.startswith(out.rsplit(".", 1)[0])))]
        if "create" not in desc and pi["changed"]:
            report("files changed although the operation failed reading (%s): %s" % (desc, sorted(pi["changed"])), replay)
    return ctx.finish(
        "fault_enumeration" if False else "proof",
        rule="for PAR2 and PAR1, Create / Verify / Repair on states {intact, one missing, two damaged, swapped, swapped without recovery files, data and recovery file missing}: the fault-free I/O trace is recorded, then a fault is injected at EVERY call index (every read, the directory listing, every write): error without effect, and for writes also an error after 0, 1, 7 bytes or the whole data were written; (thorough: pairs); then the fault is cleared and the operation rerun on the state left behind; plus, on a REAL directory through the default file I/O: a directory or a self-referential symbolic link at a protected path (Verify, Repair) and a directory at an output path (Create), PAR2 and PAR1 - each must be an error; non-trivial = every faulted case",
        exhaustive=True,
        extra={"input_distribution": dist,
               "predicate": "a hit fault => an error is returned; no file other than the one being written changes; no path is reported repaired unless its write completed; without a torn write the rerun ends in the fault-free result and state",
               "compared": "outcome class, repaired list, I/O trace up to and including the faulted call, changed files vs the extracted model (faulted run and rerun)"})
