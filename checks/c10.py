"""C10 — PAR1 files conform to the PAR 1.0 layout in both directions."""
import json
from . import p2lib as L
from . import par1common as P1
from . import c04

D = P1.DIR


def run(ctx):
    ctx.check_props()
    model = ctx.build_model()
    vh = ctx.build_harness()
    if ctx.replay:
        r = json.load(open(ctx.replay))
        impl, mod = c04.run_both(ctx, vh, model, r["lines"])
        for l, i, m in zip(r["lines"], impl, mod):
            print("impl :", i[:300]); print("model:", m[:300])
            if L.canon(i, r.get("mode", "mem")) != L.canon(m, r.get("mode", "mem")):
                ctx.violation("replay: implementation and model differ", {"lines": [l], "mode": r.get("mode", "mem")})
        return ctx.finish("proof", rule="replay")
    rng = ctx.rng
    thorough = ctx.tier == "thorough"
    rep = [0]

    def report(msg, obj, nf=False):
        if rep[0] < 6:
            rep[0] += 1
            ctx.violation(msg, obj, no_failing_input=nf)

    dist = {"writer_sets": 0, "writer_files_validated": 0, "reader_cases": 0, "reader_kinds": {}}
    # ---------------- writer direction: gopar's files judged by the specification-side validator ----------------
    sets = []
    for nf, nv in ((1, 1), (2, 3), (3, 2), (5, 4), (9, 9)) + (((12, 20), (4, 99)) if thorough else ((4, 12),)):
        sets.append(c04.Set1(P1.gen_files(rng, nf), nv))
    sets.append(c04.Set1([("big\U0001F600.bin", L.gen_content(rng, "random", 16385)), ("é", L.gen_content(rng, "random", 16384)), ("z", b"")], 3))
    modes = ["real" if k % 3 == 1 else "mem" for k in range(len(sets))]
    lines = [s.create_line(m) for s, m in zip(sets, modes)]
    impl, mod = c04.run_both(ctx, vh, model, lines)
    vlines = []
    for s, mode, line, i, m in zip(sets, modes, lines, impl, mod):
        pi = L.parse_result(i)
        dist["writer_sets"] += 1
        ctx.count("w|" + L.hx(L.md5(line.encode())), True)
        replay = {"lines": [line], "mode": mode, "impl": i[:1500], "model": m[:1500], "class": {"dir": "writer"}}
        if pi["res"] != "ok":
            report("PAR1 Create failed on a valid set: %s" % i[:100], replay); continue
        names = [n for n, _ in s.files]
        datas = [d for _, d in s.files]
        want = {s.index: 0}
        for v in range(1, s.nvol + 1):
            want[D + "/arc.p%02d" % v] = v
        if set(pi["changed"]) != set(want):
            report("PAR1 Create wrote %s, expected %s" % (sorted(pi["changed"]), sorted(want)), replay); continue
        bad = None
        for p, v in want.items():
            msg = P1.validate_volume(pi["changed"][p], names, datas, v)
            dist["writer_files_validated"] += 1
            if msg:
                bad = "%s: %s" % (p.rsplit("/", 1)[1], msg)
                break
        # ... and by the specification-side validator of the Coq development (Model/Par1Spec.v, extracted), for which
        # C10_writer_conforms proves that the writer MODEL passes for all inputs
        vl = "c10 valid %d %d %s %d %s" % (s.nvol, len(names), " ".join("%s %s" % (L.hx(P1.to_go(n)), L.hx(d)) for n, d in zip(names, datas)),
                                          len(want), " ".join(L.hx(pi["changed"][p]) for p, _ in sorted(want.items(), key=lambda kv: kv[1])))
        vlines.append((vl, replay, s))
        if bad:
            report("a file written by PAR1 Create does not conform to PAR 1.0: %s" % bad, replay)
        elif L.canon(i, mode) != L.canon(m, mode):
            report("PAR1 Create output conforms but differs from the model's bytes", replay, True)
        if len(ctx.samples) < 3:
            ctx.sample({"files": {n: len(d) for n, d in s.files}, "volumes": s.nvol, "written": {p.rsplit("/", 1)[1]: len(b) for p, b in pi["changed"].items()}})
    for (vl, replay, s), v in zip(vlines, ctx.run_lines(model, [x[0] for x in vlines])):
        dist["writer_sets_judged_by_coq_validator"] = dist.get("writer_sets_judged_by_coq_validator", 0) + 1
        if v != "valid":
            report("the files PAR1 Create wrote are not a valid PAR 1.0 set for these inputs as judged by the extracted specification-side validator valid_par1_set (%s)" % v[:80], dict(replay, validator_line=vl[:200]))
    # ---------------- reader direction: sets by the independent writer ----------------
    cases = []
    for k in range(10 if not thorough else 40):
        nf = rng.randrange(2, 6)
        raw = P1.gen_files(rng, nf, allow_big=(k % 4 == 0))
        # every placement of non-saved entries among the saved ones, arbitrary comments
        for mask in ([None] + [tuple(rng.random() < 0.4 for _ in raw) for _ in range(3)]):
            files = []
            for idx, (n, d) in enumerate(raw):
                saved = True if mask is None else not mask[idx]
                files.append((n, d, saved))
            if not any(s for _, _, s in files):
                files[-1] = (files[-1][0], files[-1][1], True)
            if all(len(d) == 0 for _, d, s in files if s):
                continue
            nv = rng.choice([1, 2, 3])
            comment = rng.choice([b"", b"a comment", "Kommentar ü".encode("utf-16-le"), L.gen_content(rng, "random", 40)])
            client = rng.choice([0, 0, 0x02000900, 0xFFFFFFFF, 0x0000BEEF])      # generator id at 0x0C: any value is conformant
            ss = P1.SpecSet1(files, nv, comment, client=client)
            arc = ss.archive("arc")
            # some volumes of the foreign set are missing, truncated or belong to another set (what is left decides the capacity)
            vkind = {}
            for v_ in range(1, nv + 1):
                r_ = rng.random()
                pth_ = D + "/arc.p%02d" % v_
                if r_ < 0.15:
                    del arc[pth_]; vkind[v_] = "deleted"
                elif r_ < 0.25:
                    arc[pth_] = arc[pth_][:rng.randrange(20, len(arc[pth_]))]; vkind[v_] = "truncated"
                elif r_ < 0.32:
                    arc[pth_] = P1.SpecSet1([("zz", b"other set", True)], 1).volume(1); vkind[v_] = "foreign"
            nv_all, nv = nv, nv - len(vkind)
            saved_files = [(n, d) for n, d, s in files if s]
            unsaved = [(n, d) for n, d, s in files if not s]
            # damage among the saved files, within and beyond capacity
            lost = [n for n, _ in saved_files if rng.random() < 0.45][:nv + rng.choice([0, 0, 1])]
            fs = {D + "/" + P1.to_go(n): d for n, d in saved_files if n not in lost}
            for n, d in unsaved:                       # files that are listed but not protected: present, absent or different
                r_ = rng.random()
                if r_ < 0.4:
                    fs[D + "/" + P1.to_go(n)] = d
                elif r_ < 0.6:
                    fs[D + "/" + P1.to_go(n)] = b"something else"
            fs.update(arc)
            kind = "plain" if mask is None else "non-saved entries %s" % "".join("n" if m_ else "s" for m_ in mask)
            if vkind:
                kind += " volumes " + ",".join("%d:%s" % kv for kv in sorted(vkind.items()))
            cases.append({"files": files, "saved": saved_files, "lost": lost, "nv": nv, "fs": fs, "kind": kind, "comment": len(comment),
                          "vline": P1.line_verify("mem", D + "/arc.par", True, fs),
                          "rline": P1.line_repair("mem" if rng.random() < 0.7 else "real", D + "/arc.par", rng.random() < 0.5, fs, dirs=[D])})
    # very many entries that are NOT saved in the parity set: the limit of 256 concerns the files in the set (data + parity
    # volumes), so 252 listed-only entries + 3 saved files + 3 volumes, and 254 + 2 + 1, are ordinary conformant sets
    for nuns, nsav, nv in ((252, 3, 3), (254, 2, 1)):
        files = [("u%03d" % k_, bytes([k_ % 251]), False) for k_ in range(nuns)]
        savedf = [("saved%d.bin" % k_, L.gen_content(rng, "random", 20 + 7 * k_)) for k_ in range(nsav)]
        files[100:100] = [(n_, d_, True) for n_, d_ in savedf]
        ss = P1.SpecSet1(files, nv, b"many entries")
        arc = ss.archive("arc")
        for lost in ([], [n_ for n_, _ in savedf][:nv]):
            fs = {D + "/" + n_: d_ for n_, d_ in savedf if n_ not in lost}
            fs.update(arc)
            cases.append({"files": files, "saved": savedf, "lost": lost, "nv": nv, "fs": fs, "kind": "non-saved entries x%d" % nuns, "comment": 12,
                          "vline": P1.line_verify("mem", D + "/arc.par", True, fs),
                          "rline": P1.line_repair("mem", D + "/arc.par", False, fs, dirs=[D])})
    vi, vm = c04.run_both(ctx, vh, model, [c["vline"] for c in cases])
    ri, rm = c04.run_both(ctx, vh, model, [c["rline"] for c in cases])
    for c, a, b, x, y in zip(cases, vi, vm, ri, rm):
        mode = "real" if c["rline"].startswith("p1 repair real") else "mem"
        dist["reader_cases"] += 1
        k0 = "non-saved" if "non-saved" in c["kind"] else "plain"
        dist["reader_kinds"][k0] = dist["reader_kinds"].get(k0, 0) + 1
        ctx.count("r|" + L.hx(L.md5(c["vline"].encode())), "n" in c["kind"].split(" ")[-1] or c["comment"] > 0)
        pv, px, py = L.parse_result(a), L.parse_result(x), L.parse_result(y)
        replay = {"lines": [c["vline"], c["rline"]], "mode": mode, "kind": c["kind"], "lost": c["lost"], "impl": [a[:1200], x[:1200]],
                  "model": [b[:1200], y[:1200]], "class": {"dir": "reader"}}
        if pv["res"] in ("panic", "crash") or px["res"] in ("panic", "crash"):
            report("crash on a conformant PAR1 set (%s)" % c["kind"], replay); continue
        cc = pv.get("counts")
        if pv["res"] != "ok" or not cc:
            report("Verify rejects a conformant PAR1 set written by the independent writer (%s, comment of %d bytes): %s" % (c["kind"], c["comment"], a[:100]), replay); continue
        nlost = len(c["lost"])
        if int(cc[1]) != nlost or int(cc[0]) != len(c["saved"]) - nlost:
            report("Verify counts %s/%s usable/unusable data files; %d of the %d SAVED files are lost (%s)" % (cc[0], cc[1], nlost, len(c["saved"]), c["kind"]), replay); continue
        if int(cc[2]) != c["nv"]:
            report("Verify counts %s parity volumes, %d were written" % (cc[2], c["nv"]), replay); continue
        after = L.apply_changed(c["fs"], px["changed"])
        wrong = [n for n, d in c["saved"] if after.get(D + "/" + P1.to_go(n)) != d]
        touched_unsaved = [n for n, d, s in c["files"] if not s and after.get(D + "/" + P1.to_go(n)) != c["fs"].get(D + "/" + P1.to_go(n))]
        if touched_unsaved:
            report("Repair touched files that are not saved in the volume set: %s" % touched_unsaved, replay); continue
        if px["res"] == "ok" and wrong:
            report("Repair of a conformant PAR1 set reports success but %s are not restored (%s)" % (wrong, c["kind"]), replay); continue
        if nlost <= c["nv"] and py["res"] == "ok" and px["res"] != "ok":
            report("Repair of a conformant PAR1 set failed (%s) with %d lost <= %d volumes (%s)" % (px["res"], nlost, c["nv"], c["kind"]), replay); continue
        if L.canon(a, "mem") != L.canon(b, "mem"):
            report("PAR1 Verify differs from the model on a conformant set (%s)" % c["kind"], replay, True)
        elif L.canon(x, mode) != L.canon(y, mode):
            report("PAR1 Repair differs from the model on a conformant set (%s): impl=%s model=%s" % (c["kind"], x.split(" trace=")[0], y.split(" trace=")[0]), replay, True)
        if len(ctx.samples) < 6 and "non-saved" in c["kind"] and c["lost"]:
            ctx.sample({"entries": [(n, len(d), "saved" if s else "not saved") for n, d, s in c["files"]], "lost": c["lost"], "volumes": c["nv"],
                        "comment_bytes": c["comment"], "verify": a.split(" trace=")[0], "repair": x.split(" trace=")[0]})
    return ctx.finish(
        "proof",
        rule="writer direction: PAR1 sets of 1-12 files (sizes 0..20000 incl. 16383/16384/16385, Unicode names incl. surrogate pairs), 1-12 volumes (thorough 99): every file gopar writes is judged by an independent specification-side validator (layout, offsets, sizes, control/set/file/16k hashes, UTF-16LE entries, parity = sum_i i^(v-1)*file_i over GF(2^8) mod 0x11D) and compared with the model's bytes; reader direction: sets written by an independent writer with comments (ASCII, UTF-16, binary) and every sampled placement of entries not saved in the volume set (their files present, absent or different), damage within and beyond capacity; non-trivial = has a comment or a non-saved entry",
        extra={"input_distribution": dist,
               "predicate": "writer: validator accepts every file; reader: Verify accepts, counts concern the SAVED entries only, Repair restores the lost saved files, never touches the others",
               "compared": "written bytes (writer), counts/outcome/repaired/changed (reader) vs the extracted model"})
