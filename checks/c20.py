"""C20 — the par command's exit status reflects the outcome: the real binary vs the CLI model."""
import concurrent.futures
import json
import os
import shutil
import subprocess
import tempfile
from . import p2lib as L
from . import par2common as P
from . import par1common as P1
from . import c04

SETDIR = "/top/set"


def run_par(binary, cwd_v, args, fs, dirs=()):
    root = tempfile.mkdtemp(prefix="vh-cli-")
    try:
        for d in list(dirs) + [cwd_v, "/top", "/elsewhere"]:
            os.makedirs(root + d, exist_ok=True)
        for p, d in fs.items():
            os.makedirs(os.path.dirname(root + p), exist_ok=True)
            with open((root + p).encode("latin-1"), "wb") as f:
                f.write(d)
        argv = [binary] + [(root + a) if a.startswith("/") and not a.startswith("-") else a for a in args]
        env = dict(os.environ, GOMAXPROCS="4")
        p = subprocess.run([x.encode("latin-1") for x in argv], cwd=root + cwd_v, env=env, stdout=subprocess.PIPE, stderr=subprocess.PIPE, timeout=120)
        out = p.stdout[-3000:] + p.stderr[-3000:]
        changed = {}
        seen = set()
        for dp, _, fns in os.walk(root.encode("latin-1")):
            for fn in fns:
                full = os.path.join(dp, fn)
                v = full[len(root):].decode("latin-1")
                seen.add(v)
                b = open(full, "rb").read()
                if fs.get(v) != b:
                    changed[v] = b
        for v in fs:
            if v not in seen:
                changed[v] = None
        return p.returncode, changed, (b"panic:" in out or b"goroutine " in out), out.decode("latin-1")[-400:]
    finally:
        shutil.rmtree(root, ignore_errors=True)


def model_line(cwd_v, view, args, fs):
    return " ".join(["cli", L.hx(cwd_v), view, str(len(args))] + [L.hx(a) for a in args] + L.fs_tokens(fs))


def parse_model(s):
    if not s or not s.startswith("exit="):
        return None, {}
    e, _, ch = s.partition(" changed=")
    changed = {}
    if ch:
        for x in ch.split(","):
            p, _, d = x.partition(":")
            changed[L.unhx(p).decode("latin-1")] = L.unhx(d)
    return int(e[5:]), changed


def spell(path_v, cwd_v, how):
    """spelling of an absolute virtual path: abs, or clean relative to cwd"""
    if how == "abs":
        return path_v
    import posixpath
    return posixpath.relpath(path_v, cwd_v)


def run(ctx):
    ctx.check_props()
    gen_fail = ctx.genlink_goarith("GoLinkC20")    # the Go arithmetic / constants are re-translated from the source and the GEN_* theorems re-checked
    model = ctx.build_model()
    vh = ctx.build_harness()
    par = ctx.build_par_cli()
    rng = ctx.rng
    thorough = ctx.tier == "thorough"
    if ctx.replay:
        r = json.load(open(ctx.replay))
        fs = {k: L.unhx(v) for k, v in r["fs_hex"].items()}
        code, changed, panicked, tail = run_par(par, r["cwd"], r["args"], fs)
        print("par exit", code, "panic" if panicked else "", tail[-200:])
        print("model:", ctx.run_lines(model, [model_line(r["cwd"], r["view"], r["args"], fs)]))
        return ctx.finish("proof", rule="replay")
    rep = [0]

    def report(msg, obj, nf=False):
        if rep[0] < 8:
            rep[0] += 1
            ctx.violation(msg, obj, no_failing_input=nf)

    # ---- archive states for both formats, created by gopar itself (library, in memory) ----
    # 2 + 2 + 1 slices, 3 recovery blocks: "repairable" (a.dat lost, 2 slices) has a spare block, "exact capacity" loses 3 slices
    ps = P.PSet({"a.dat": L.gen_content(rng, "random", 8), "b.dat": L.gen_content(rng, "random", 7), "c.dat": L.gen_content(rng, "random", 4)}, 4, 3, g=1)
    ps.index = SETDIR + "/arc.par2"; ps.paths = {n: SETDIR + "/" + n for n in ps.files}; ps.bystanders = {}
    lines = [L.line_create("p2", "mem", ps.index, 4, 3, 1, list(ps.paths.values()), {ps.paths[n]: d for n, d in ps.files.items()})]
    s1 = c04.Set1([("p.dat", L.gen_content(rng, "random", 9)), ("q.dat", L.gen_content(rng, "random", 12)), ("r.dat", L.gen_content(rng, "random", 4))], 2)
    s1.index = SETDIR + "/old.par"; s1.paths = {n: SETDIR + "/" + n for n, _ in s1.files}
    lines.append(P1.line_create("mem", s1.index, 2, list(s1.paths.values()), {s1.paths[n]: d for n, d in s1.files}))
    res = ctx.run_lines(vh, lines)
    c2, c1 = L.parse_result(res[0]), L.parse_result(res[1])
    if c2["res"] != "ok" or c1["res"] != "ok":
        from vlib import Fail
        raise Fail("could not create the sets: %s %s" % (res[0][:100], res[1][:100]))
    full2 = L.apply_changed({ps.paths[n]: d for n, d in ps.files.items()}, c2["changed"])
    full1 = L.apply_changed({s1.paths[n]: d for n, d in s1.files}, c1["changed"])
    vols2 = sorted(p for p in c2["changed"] if p != ps.index)
    ps.created, ps.volumes, ps.base = full2, vols2, "arc"
    vols1 = sorted(p for p in c1["changed"] if p != s1.index)

    def states(full, index, datapaths, vols, cap=None):
        st = {"intact": dict(full)}
        x = dict(full); del x[datapaths[0]]; st["repairable"] = x
        x = dict(full); x[datapaths[0]] = b"damaged"; x.pop(datapaths[1]); x.pop(datapaths[2]); st["unrepairable"] = x
        if cap is not None:
            x = dict(full)
            for p_ in cap:
                x.pop(p_)
            st["repairable at exact capacity"] = x
        x = dict(full); x.pop(datapaths[0])
        for v in vols:
            x.pop(v)
        st["damaged, no recovery files"] = x
        x = dict(full)
        for v in vols:
            x.pop(v)
        st["intact, no recovery files"] = x
        x = dict(full); b = x[index]; x[index] = b[:40] + bytes([b[40] ^ 0xff]) + b[41:]; st["damaged index"] = x
        x = dict(full); x.pop(index); st["missing index"] = x
        x = dict(full); x[datapaths[0]], x[datapaths[1]] = x[datapaths[1]], x[datapaths[0]]; st["swapped"] = x
        x = dict(x)
        for v in vols:
            x.pop(v)
        st["swapped, no recovery files"] = x       # every slice is still there: repair needed AND possible without any block
        x = dict(full); x[datapaths[0]] = x[datapaths[0]] + b"zzz"; st["garbage appended"] = x     # (PAR2: every slice still in place)
        return st

    st2 = states(full2, ps.index, list(ps.paths.values()), vols2, cap=[ps.paths["b.dat"], ps.paths["c.dat"]])      # 3 slices lost, 3 blocks
    st1 = states(full1, s1.index, list(s1.paths.values()), vols1, cap=list(s1.paths.values())[:2])   # 2 files lost, 2 volumes
    st1.pop("swapped"); st1.pop("swapped, no recovery files")
    # PAR1: a stale volume of ANOTHER set, of another length, at the next volume number (an earlier Create with more volumes)
    x = dict(full1); x[s1.index[:-4] + ".p03"] = P1.SpecSet1([("zz", b"0123456789abcdefghijklmnopqrstuvwxyz", True)], 1).volume(1); st1["stale volume of another set"] = x
    cases = []      # (desc, cwd, view, args, fs)
    for fmtname, index, sts in (("par2", ps.index, st2), ("par1", s1.index, st1)):
        for sname, fs in sts.items():
            for cwd in (SETDIR, "/top", "/elsewhere"):
                for how in ("abs", "rel"):
                    ix = spell(index, cwd, how)
                    view = "rel" if how == "rel" else "abs"
                    for cmd in (["v"], ["verify"], ["r"], ["repair"], ["REPAIR", "-doublecheck"], ["Verify"] + (["-a"] if fmtname == "par1" else [])):
                        if cwd != SETDIR and cmd[0] in ("verify", "r", "Verify") and not thorough:
                            continue
                        g = ["-g", "2"] if rng.random() < 0.3 else []
                        cases.append(("%s %s|%s|cwd=%s|%s" % (fmtname, " ".join(cmd), sname, cwd, how), cwd, view, g + cmd + [ix], fs))
    # create: both formats, cwd x spelling, flags
    inputs = {SETDIR + "/n1.dat": L.gen_content(rng, "random", 11), SETDIR + "/sub/n2.dat": L.gen_content(rng, "random", 6)}
    for cwd in (SETDIR, "/top", "/elsewhere"):
        for how in ("abs", "rel"):
            for extn, extra in ((".par2", ["-s", "8", "-c", "3"]), (".par2", []), (".par2", ["-s", "6"]), (".par", ["-c", "2"]), (".par", []), (".zip", [])):
                files = [SETDIR + "/n1.dat"] + ([SETDIR + "/sub/n2.dat"] if extn != ".par" or True else [])
                args = ["c"] + extra + [spell(SETDIR + "/new" + extn, cwd, how)] + [spell(f, cwd, how) for f in files]
                cases.append(("create %s %s|cwd=%s|%s" % (extn, " ".join(extra), cwd, how), cwd, "rel" if (how == "rel" and extn != ".par2") else "abs", args, inputs))
    # integer flags in every spelling Go's flag package (strconv.ParseInt base 0) accepts, and some it rejects (usage, 3)
    for cval in ("0x2", "010", "1_0", "0b11", "0o3", "+2", "08", "1__0", "0x", "2_", "0x1_", "9223372036854775808"):
        cases.append(("create .par2 -c %s|cwd=%s|abs" % (cval, SETDIR), SETDIR, "abs",
                      ["c", "-s", "8", "-c", cval, SETDIR + "/new.par2", SETDIR + "/n1.dat"], inputs))
    for gval in ("0x2", "0_2", "02", "-0"):
        cases.append(("create .par2 -g %s|cwd=%s|abs" % (gval, SETDIR), SETDIR, "abs",
                      ["-g", gval, "c", "-s", "8", SETDIR + "/new.par2", SETDIR + "/n1.dat"], inputs))
    args_missing = ["c", spell(SETDIR + "/new.par2", SETDIR, "rel"), "nonexistent.dat"]
    cases.append(("create missing input", SETDIR, "abs", args_missing, inputs))
    # usage errors
    for a in ([], ["-h"], ["-h", "v", "x.par2"], ["-help"], ["frobnicate", "x.par2"], ["v"], ["r"], ["c"], ["c", "x.par2"], ["-g", "abc", "v", "x.par2"],
              ["-nosuchflag", "v", "x.par2"], ["v", "-nosuch", "x.par2"], ["r", "-doublecheck=maybe", "x.par2"], ["c", "-s", "x.par2", "f"], ["c", "-c"],
              ["v", "x.unknown"], ["r", "x.unknown"], ["-g"], ["--", "v"], ["v", "--", "arc.par2"], ["-g=3", "V", "arc.par2"], ["v", "-a=false", "arc.par2"]):
        cases.append(("usage %s" % " ".join(a), SETDIR, "rel", a, dict(full2)))

    def one(c):
        desc, cwd, view, args, fs = c
        return run_par(par, cwd, args, fs, dirs=[SETDIR, SETDIR + "/sub"])
    with concurrent.futures.ThreadPoolExecutor(12) as ex:
        impl = list(ex.map(one, cases))
    mod = ctx.run_lines(model, [model_line(c[1], c[2], c[3], c[4]) for c in cases])
    dist = {"exit": {}, "kind": {}}
    for c, (code, changed, panicked, tail), m in zip(cases, impl, mod):
        desc, cwd, view, args, fs = c
        mcode, mchanged = parse_model(m)
        kind = desc.split("|")[0]
        dist["exit"][str(code)] = dist["exit"].get(str(code), 0) + 1
        dist["kind"][kind.split(" ")[0]] = dist["kind"].get(kind.split(" ")[0], 0) + 1
        ctx.count(desc, not desc.startswith("usage"))
        replay = {"cwd": cwd, "view": view, "args": args, "fs_hex": {k: L.hx(v) for k, v in fs.items()}, "desc": desc,
                  "impl_exit": code, "model_exit": mcode, "output_tail": tail, "class": {"kind": kind.split(" ")[0]}}
        if panicked:
            report("the par command crashed (%s): exit %d: %s" % (desc, code, tail[-150:]), replay); continue
        after = L.apply_changed(fs, changed)
        # --- the property's own implications, evaluated on the real outcome ---
        bad = None
        is2 = "par2" in kind or ".par2" in desc
        if kind.startswith("par2") or kind.startswith("par1"):
            full, datap = (full2, list(ps.paths.values())) if kind.startswith("par2") else (full1, list(s1.paths.values()))
            wrong = [p for p in datap if after.get(p) != full[p]]
            verb = kind.split(" ")[1].lower()
            if verb in ("v", "verify"):
                wrong_before = [p for p in datap if fs.get(p) != full[p]]
                if code == 0 and wrong_before:
                    bad = "verify exits 0 although %s are damaged or missing" % wrong_before
                if changed:
                    bad = "verify modified files"
            else:
                if code == 0 and wrong:
                    bad = "repair exits 0 although %s are still damaged or missing" % wrong
        if desc.startswith("usage") and mcode == 3 and code != 3:
            bad = "usage error exits %d, not 3" % code
        # command lines that are usage errors by the property's own wording (no command, unknown command, missing
        # arguments, flags that do not parse) must exit 3 whatever the model says
        DEFINITE_USAGE = ([], ["frobnicate", "x.par2"], ["v"], ["r"], ["c"], ["c", "x.par2"], ["-g", "abc", "v", "x.par2"],
                          ["-nosuchflag", "v", "x.par2"], ["v", "-nosuch", "x.par2"], ["r", "-doublecheck=maybe", "x.par2"], ["c", "-c"], ["-g"])
        if desc.startswith("usage") and args in DEFINITE_USAGE and code != 3:
            bad = "usage error exits %d, not 3" % code
        # the statuses 0 / 1 / 2 from the TRUTH of the state, independent of the model: slices present (content search in the
        # originals), complete recovery packets present (byte search), PAR1 files and volumes byte-identical to what was created
        if (kind.startswith("par2") or kind.startswith("par1")) and "|" in desc:
            sname = desc.split("|")[1]
            verb = kind.split(" ")[1].lower()
            want = None
            if sname not in ("damaged index", "missing index"):
                if kind.startswith("par2"):
                    truth = P.independent_usable(ps, fs)
                    if truth is not None:
                        lost, have = ps.nslices() - truth, P.intact_block_count(ps, fs)
                        anywrong = any(fs.get(p_) != full2[p_] for p_ in ps.paths.values())
                    else:
                        lost = None
                else:
                    lost = sum(1 for p_ in s1.paths.values() if fs.get(p_) != full1[p_])
                    have = sum(1 for v_ in vols1 if fs.get(v_) == full1[v_])
                    anywrong = lost > 0
                if lost is not None:
                    if verb in ("v", "verify"):
                        want = 0 if not anywrong else (1 if lost <= have else 2)
                    else:
                        want = 0 if lost <= have else 2
            if want is not None:
                dist["truth_based_status_cases"] = dist.get("truth_based_status_cases", 0) + 1
            if want is not None and code != want and not bad:
                bad = "exit status %d, the property requires %d in the state '%s' (%s: %d lost, %d recovery blocks/volumes intact)" % (code, want, sname, verb, lost, have)
            if sname in ("damaged index", "missing index") and code in (0, 3):
                bad = "exit status %d for a %s (a failure that is not a usage error must exit with another non-zero status)" % (code, sname)
        if desc.startswith("create") and code == 0:
            outs = [p for p in changed if p.startswith(SETDIR + "/new.")]
            if not outs:
                bad = "create exits 0 but wrote no set"
        if bad:
            report("%s (%s)" % (bad, desc), replay); continue
        if mcode is None:
            report("model did not answer (%s): %s" % (desc, (m or "")[:100]), replay, True); continue
        if code != mcode:
            # states and exit statuses the property names explicitly
            report("exit status %d, the model of main.go and the library says %d (%s)" % (code, mcode, desc), replay,
                   nf=not ((mcode in (1, 2, 3) or code in (0,)) and True))
            continue
        if set(changed) != set(mchanged) or any(changed[k] != mchanged[k] for k in changed):
            report("files after the command differ from the model (%s): impl changed %s, model %s" % (desc, sorted(changed), sorted(mchanged)), replay, True)
        if len(ctx.samples) < 6 and code in (1, 2) and "cwd=/top" in desc:
            ctx.sample({"argv": args, "cwd": cwd, "state": desc.split("|")[1], "exit": code})
    # ---- structural coincidences: a protected file is deleted while its TWIN (same content) is intact, so every slice is
    # still findable - the file is missing all the same: verify must say so (1), repair must restore it (0) ----
    tw = L.gen_content(rng, "random", 13)
    twfiles = {SETDIR + "/t1.dat": tw, SETDIR + "/t2.dat": tw, SETDIR + "/t3.dat": L.gen_content(rng, "random", 6)}
    cr = L.parse_result(ctx.run_lines(vh, [L.line_create("p2", "mem", SETDIR + "/tw.par2", 4, 2, 1, list(twfiles), twfiles)])[0])
    if cr["res"] == "ok":
        fulltw = L.apply_changed(twfiles, cr["changed"])
        for victim in (SETDIR + "/t1.dat", SETDIR + "/t2.dat"):
            fs = dict(fulltw); del fs[victim]
            for args, want in ((["v", SETDIR + "/tw.par2"], 1), (["r", SETDIR + "/tw.par2"], 0)):
                code, changed, panicked, tail = run_par(par, SETDIR, args, fs, dirs=[SETDIR])
                mcode, _ = parse_model(ctx.run_lines(model, [model_line(SETDIR, "abs", args, fs)])[0])
                after = L.apply_changed(fs, changed)
                ctx.count("twin|%s|%s" % (victim, args[0]), True)
                dist["kind"]["twin"] = dist["kind"].get("twin", 0) + 1
                replay = {"cwd": SETDIR, "view": "abs", "args": args, "fs_hex": {k: L.hx(v) for k, v in fs.items()}, "desc": "twin of a deleted file intact",
                          "impl_exit": code, "model_exit": mcode, "output_tail": tail, "class": {"kind": "twin"}}
                if code != want or (args[0] == "r" and after.get(victim) != tw):
                    report("exit status %d with %s missing while its twin is intact: the property requires %d%s" %
                           (code, victim, want, "" if args[0] == "v" else " and the file restored"), replay)
                elif code != mcode:
                    report("exit status %d, the model says %s (twin state)" % (code, mcode), replay, True)
    # ---- create with a DIRECTORY in the way of one of the recovery files: the write of that file fails, the set is
    # incomplete, and the exit status must say so ----
    for volname in ("new.vol00+01.par2", "new.vol01+02.par2"):
        fs = dict(inputs); fs[SETDIR + "/" + volname + "/keep"] = b"a directory is in the way"
        args = ["c", "-s", "8", "-c", "3", SETDIR + "/new.par2", SETDIR + "/n1.dat", SETDIR + "/sub/n2.dat"]
        code, changed, panicked, tail = run_par(par, SETDIR, args, fs, dirs=[SETDIR, SETDIR + "/sub", SETDIR + "/" + volname])
        mcode, _ = parse_model(ctx.run_lines(model, [model_line(SETDIR, "abs", args, fs)])[0])
        ctx.count("create-blocked|" + volname, True)
        dist["kind"]["create-blocked"] = dist["kind"].get("create-blocked", 0) + 1
        replay = {"cwd": SETDIR, "view": "abs", "args": args, "fs_hex": {k: L.hx(v) for k, v in fs.items()}, "desc": "create with a directory at " + volname,
                  "impl_exit": code, "model_exit": mcode, "output_tail": tail, "class": {"kind": "create-blocked"}}
        if code == 0:
            report("par create exits 0 although the recovery file %s could not be written (a directory is in the way): the set is incomplete" % volname, replay)
        # (no comparison with the model here: the model's file system has no directories to write onto - its write succeeds)
    ctx.report_genlink(gen_fail, "GoLinkC20")
    return ctx.finish(
        "proof",
        rule="the real par binary built from the tree, run in scratch directories: {PAR1, PAR2} x {v, verify, r, repair, upper-case forms, -doublecheck, -a, -g} x archive state {intact, repairable, unrepairable, damaged without recovery files, intact without recovery files, damaged index, missing index, swapped files} x current directory {set directory, its parent, an unrelated directory} x {absolute, relative} spelling of the index; create for .par/.par2/unknown extension with -s/-c, invalid slice size, missing input; 22 usage-error command lines; exit status and the directory tree afterwards compared with the CLI model (cli_run over the library models); non-trivial = reaches a library call",
        extra={"input_distribution": dist,
               "predicate": "exit 0 from verify => every protected file intact; exit 0 from repair => every protected file intact afterwards; verify modifies nothing; usage errors exit 3; create exit 0 => a set was written; any panic text in the output is a failure",
               "compared": "exit status and changed files vs the extracted cli_run"})
