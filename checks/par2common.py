"""Shared scenario engine for the PAR2 end-to-end properties (C01, C02, C03, C13, C14, C16, C17, C18, C19)."""
import itertools
from . import p2lib as L

DIR = "/w/set"


class PSet:
    def __init__(self, files, slice_, nparity, g=2, base="arc", listing=None, tag=""):
        self.files = files              # dict rel name -> bytes (insertion order = listing order)
        self.slice = slice_
        self.nparity = nparity
        self.g = g
        self.base = base
        self.tag = tag
        self.index = DIR + "/" + base + ".par2"
        self.paths = {n: DIR + "/" + n for n in files}
        self.created = None             # fs dict after Create (impl), when it succeeded
        self.volumes = []               # paths of recovery files
        self.bystanders = {}

    def input_fs(self):
        fs = {self.paths[n]: d for n, d in self.files.items()}
        fs.update(self.bystanders)
        return fs

    def nslices(self):
        return sum((len(d) + self.slice - 1) // self.slice for d in self.files.values())

    def create_line(self, mode="mem", order=None, g=None):
        names = list(order) if order else list(self.files)
        return L.line_create("p2", mode, self.index, self.slice, self.nparity, g or self.g,
                             [self.paths[n] for n in names], self.input_fs())


NAMES = ["a.dat", "b.bin", "sub/c.txt", "sub/deep/d", "e e.x", "f[1].dat", "g", "h.par2.txt", "report..final.txt", "v1..v2/diff.txt"]


def gen_set(rng, slice_choices=(4, 8, 12, 64), maxfiles=5, big=False, kinds=None, nparity=None, sizes=None):
    S = rng.choice(slice_choices)
    nf = rng.randrange(1, maxfiles + 1)
    names = rng.sample(NAMES, nf)
    files = {}
    for n in names:
        if sizes:
            sz = rng.choice(sizes)
        else:
            sz = rng.choice([1, S - 1, S, S + 1, 2 * S, 2 * S + 3, 3 * S + 1, 5 * S, 7 * S - 2])
        if big and rng.random() < 0.5:
            sz = rng.choice([16383, 16384, 16385, 20000])
        kind = rng.choice(kinds or L.CONTENT_KINDS)
        files[n] = L.gen_content(rng, kind, max(1, sz), S)
    np_ = nparity if nparity is not None else rng.choice([1, 2, 3, 3, 5, 8])
    ps = PSet(files, S, np_, g=rng.choice([1, 2, 3, 7]))
    # beside the set: an unrelated file, a foreign .par2 in a sub-directory, a file outside the set directory, a
    # SUB-DIRECTORY NAMED LIKE A RECOVERY FILE of this set (with a file inside), and a file one level deeper whose
    # path has the set's prefix and suffix - the listing is that of ONE directory and takes files only
    ps.bystanders = {DIR + "/unrelated.txt": b"keep me", DIR + "/sub/other.par2": b"not a par2 file at all",
                     "/w/outside.dat": b"outside",
                     DIR + "/" + ps.base + ".dir.par2/inner.par2": b"PAR2\0PKT not a packet",
                     DIR + "/" + ps.base + ".deeper/x.par2": b"PAR2\0PKT neither"}
    return ps


def run_both(ctx, vh, model, lines, vmem_kb=None, timeout=3000):
    impl = ctx.run_lines(vh, lines, timeout=timeout, vmem_kb=vmem_kb)
    mod = ctx.run_lines(model, lines, timeout=timeout)
    return impl, mod


def create_all(ctx, vh, model, sets, mode="mem", report=None):
    """Run Create for every set on both sides; fill ps.created / ps.volumes. Returns list of (ps, impl_raw, model_raw)."""
    lines = [ps.create_line(mode) for ps in sets]
    impl, mod = run_both(ctx, vh, model, lines)
    out = []
    for ps, line, i, m in zip(sets, lines, impl, mod):
        ri = L.parse_result(i)
        if ri["res"] == "ok":
            ps.created = L.apply_changed(ps.input_fs(), ri["changed"])
            ps.volumes = sorted(p for p in ri["changed"] if p != ps.index)
        out.append((ps, line, i, m))
    return out


# ---------- damage ----------
def damage_ops(rng, ps, fs):
    """Yield (description, new fs) for a created set."""
    names = list(ps.files)
    S = ps.slice
    out = []

    def put(desc, nfs):
        out.append((desc, nfs))

    for n in names:
        p = ps.paths[n]
        d = fs[p]
        nfs = dict(fs); del nfs[p]; put("delete:" + n, nfs)
        nfs = dict(fs); nfs[p] = L.gen_content(rng, "random", len(d)); put("overwrite:" + n, nfs)
        pos = rng.randrange(len(d))
        nfs = dict(fs); nfs[p] = d[:pos] + bytes([d[pos] ^ (1 << rng.randrange(8))]) + d[pos + 1:]; put("flip:%s@%d" % (n, pos), nfs)
        k = rng.choice([1, 2, S - 1, S, S + 1])
        pos = rng.randrange(len(d) + 1)
        nfs = dict(fs); nfs[p] = d[:pos] + L.gen_content(rng, "random", k) + d[pos:]; put("insert:%s@%d+%d" % (n, pos, k), nfs)
        if len(d) > 1:
            k = rng.randrange(1, min(len(d), S + 2))
            pos = rng.randrange(len(d) - k + 1)
            nfs = dict(fs); nfs[p] = d[:pos] + d[pos + k:]; put("cut:%s@%d-%d" % (n, pos, k), nfs)
            nfs = dict(fs); nfs[p] = d[:rng.randrange(1, len(d))]; put("truncate:" + n, nfs)
        nfs = dict(fs); nfs[p] = d + L.gen_content(rng, "random", rng.choice([1, S, S + 3])); put("append:" + n, nfs)
        if d.endswith(b"\0") and len(d.rstrip(b"\0")) > 0:
            nfs = dict(fs); nfs[p] = d.rstrip(b"\0"); put("striptrailingzeros:" + n, nfs)
        if S >= 8 and len(d) >= 8:
            # a multiple of the CRC-32 polynomial xor-ed into one slice: its CRC-32 is unchanged, only the MD5 differs
            k0 = S * rng.randrange((len(d) - 5) // S + 1) if len(d) >= S else 0
            room = min(S, len(d) - k0) - 5
            if room >= 0:
                off = k0 + rng.randrange(room + 1)
                nd = bytearray(d)
                for i_, x_ in enumerate(b"\x41\x06\x71\xdb\x01"):
                    nd[off + i_] ^= x_
                nfs = dict(fs); nfs[p] = bytes(nd); put("crckeep:%s@%d" % (n, off), nfs)
        nfs = dict(fs); nfs[p] = b""; put("empty:" + n, nfs)
    if len(names) >= 2:
        a, b = rng.sample(names, 2)
        nfs = dict(fs); nfs[ps.paths[a]], nfs[ps.paths[b]] = fs[ps.paths[b]], fs[ps.paths[a]]; put("swap:%s,%s" % (a, b), nfs)
        nfs = dict(fs); nfs[ps.paths[b]] = fs[ps.paths[a]]; del nfs[ps.paths[a]]; put("moveover:%s->%s" % (a, b), nfs)
    return out


def drop_volumes(rng, ps, fs, keep=None):
    """Remove a subset of the recovery files; returns (desc, fs, surviving exponents)."""
    vols = list(ps.volumes)
    if keep is None:
        keep = [v for v in vols if rng.random() < 0.6]
    nfs = dict(fs)
    for v in vols:
        if v not in keep:
            del nfs[v]
    return "keepvols:%d/%d" % (len(keep), len(vols)), nfs


def vol_blocks(path):
    """number of blocks in a gopar-named volume file  base.volII+CC.par2"""
    try:
        return int(path.rsplit("+", 1)[1].split(".")[0])
    except Exception:
        return 0


def originals_ok(ps, fs):
    """list of protected names whose file differs from the original (or is missing)"""
    return [n for n in ps.files if fs.get(ps.paths[n]) != ps.files[n]]


def counts_of(r):
    c = r.get("counts")
    if not c:
        return None
    def num(x):
        return None if x == "x" else int(x)
    return {"usable": int(c[0]), "unusable": int(c[1]), "pusable": int(c[2]), "punusable": int(c[3]),
            "misplaced": num(c[4]), "needed": int(c[5]), "possible": int(c[6])}


# ---------- recovery blocks that are really there (independent of gopar and of the model) ----------
def packets_of(b):
    """(offset, length, type16, bytes) of the back-to-back packets of a file written by Create"""
    import struct
    out, off = [], 0
    while off + 64 <= len(b) and b[off:off + 8] == b"PAR2\0PKT":
        ln = struct.unpack("<Q", b[off + 8:off + 16])[0]
        if ln < 64 or off + ln > len(b):
            break
        out.append((off, ln, bytes(b[off + 48:off + 64]), bytes(b[off:off + ln])))
        off += ln
    return out


def intact_block_count(ps, fs):
    """number of distinct recovery blocks whose complete packet is still present in some '<base>.*.par2' file beside the index"""
    import struct
    want = {}
    for v in ps.volumes:
        for off, ln, typ, raw in packets_of(ps.created[v]):
            if typ.startswith(b"PAR 2.0\0RecvSlic"):
                want[struct.unpack("<I", raw[64:68])[0]] = raw
    ixdir = ps.index.rsplit("/", 1)[0]
    prefix, suffix = ixdir + "/" + ps.base + ".", ".par2"
    files = [d for p, d in fs.items() if p.startswith(prefix) and p.endswith(suffix) and "/" not in p[len(ixdir) + 1:]]
    return sum(1 for e, raw in want.items() if any(raw in d for d in files))


def independent_usable(ps, fs):
    """Number of protected slices that are present in the surviving protected files in the sense of the properties -
    contiguously, not overlapping another surviving slice, zero padding only past the end of a file - computed from the
    ORIGINAL contents alone (no gopar, no model).  Returns None when the state is ambiguous for such a count: two slices with the
    same padded content, a slice occurring more than once, or two occurrences overlapping."""
    S = ps.slice
    sl = []
    for n, d in ps.files.items():
        for i in range(0, len(d), S):
            c = d[i:i + S]
            sl.append(c + bytes(S - len(c)))
    if len(set(sl)) != len(sl):
        return None
    occ = []          # (file path, offset, slice index)
    for k, pad in enumerate(sl):
        hits = []
        for n in ps.files:
            d = fs.get(ps.paths[n])
            if d is None:
                continue
            dd = d + bytes(S - 1)
            start = 0
            while True:
                j = dd.find(pad, start)
                if j < 0 or j >= len(d):
                    break
                hits.append((ps.paths[n], j))
                start = j + 1
        if len(hits) > 1:
            return None
        if hits:
            occ.append((hits[0][0], hits[0][1], k))
    occ.sort()
    for a, b in zip(occ, occ[1:]):
        if a[0] == b[0] and b[1] - a[1] < S:
            return None
    return len(occ)
