"""C15 — archives cannot direct reads or writes outside the archive's directory."""
import itertools
import json
from . import p2lib as L
from . import par2common as P
from . import par2writer as W
from . import par1common as P1
from . import robust as R

DEEP = "/c/a/n/a/r/y/set"          # the set directory, seven levels below the scratch root
TRAVERSAL = ["../x", "../../x", "a/../../x", "a/../../../x", "/abs", "/c/a/x", ".", "..", "", "a/./..", "a/..", "..a", "...", "a/../b",
             "sub/../../escaped.txt", "good.dat/../../x", "./x", ".hidden", "x/", "x//y", "a/b/../../../z", "..\\x", "sub\\..\\..\\x",
             "a/../..", "././../y", "x/../x/../../w", "\0", "a\0/../../b",
             # NEAR MISSES: harmless as they stand (the odd component is just a strange directory name) - they leave the
             # directory only if something normalises the name AFTER it was validated (trimming, dropping control or
             # invisible characters, unescaping, case or width folding)
             " ../x", "\t../x", "\n../../x", "../x ", "sub/ ../../x ", " /abs", ".\x01./x", "a/.\x01./.\x01./x", ".\x7f./.\x7f./x",
             ".\x1b./x", "..\r/x", "%2e%2e/x", "..%2fx", "%2e%2e%2f%2e%2e%2fx", "..;/x", ".. ./x", "&#46;&#46;/x", "..\\/x", "~/x", "$HOME/x", "a/ .. / .. /x",
             # rooted names that climb right behind the root, and SIBLING directories whose names begin with the name of the
             # archive's own directory (a prefix test on strings instead of on path components lets them through)
             "/../x", "//../x", "/sub/../../x", "/./../x", "../set.bak/x", "../set-old/x", "../settings/x", "../set2/x", "../set/../set.bak/x"]


def run(ctx):
    ctx.check_props()
    model = ctx.build_model()
    vh = ctx.build_harness()
    if ctx.replay:
        r = json.load(open(ctx.replay))
        impl = ctx.run_lines(vh, r["lines"]); mod = ctx.run_lines(model, r["lines"])
        for l, i, m in zip(r["lines"], impl, mod):
            print("impl :", i[:300]); print("model:", m[:300])
            if L.canon(i, r.get("mode", "real")) != L.canon(m, r.get("mode", "real")):
                ctx.violation("replay: implementation and model differ", {"lines": [l]})
        return ctx.finish("proof", rule="replay")
    rng = ctx.rng
    thorough = ctx.tier == "thorough"
    rep = [0]

    def report(msg, obj, nf=False):
        if rep[0] < 6:
            rep[0] += 1
            ctx.violation(msg, obj, no_failing_input=nf)

    # ---- 1. the path model vs Go's path / filepath: EVERY string over {a . /} up to length 7 (thorough 8) ----
    maxlen = 7 if not thorough else 8
    strs = [""]
    for n in range(1, maxlen + 1):
        strs += ["".join(t) for t in itertools.product("a./", repeat=n)]
    extra_strs = ["\xc3\xa9/..", "a\\..\\b", "a//\0/..", "/" * 9 + "a", "." * 9, "a" * 300 + "/../b", "..." , "..a/..", "a/.../b", " ", "a /.. /b", "/..", "/../..", "//a//../.."]
    lines = []
    for s in strs + extra_strs:
        for op in ("clean", "isabs", "dir", "base", "ext", "check"):
            lines.append("c15 %s %s" % (op, L.hx(s)))
    short = [s for s in strs if len(s) <= 4] + ["/w/set", "dir/", "../up"]
    for a in short:
        for b in rng.sample(short, 12) + ["..", "../x", "/abs", ""]:
            lines.append("c15 join %s %s" % (L.hx(a), L.hx(b)))
    impl = ctx.run_lines(vh, lines)
    mod = ctx.run_lines(model, lines)
    npath = 0
    for line, i, m in zip(lines, impl, mod):
        npath += 1
        ctx.count(line, False)
        if i != m:
            t = line.split()
            report("path model differs from Go's %s on %r: Go=%r model=%r" % (t[1], [L.unhx(x) for x in t[2:]], L.unhx(i) if t[1] not in ("isabs", "check") else i,
                                                                                 L.unhx(m) if t[1] not in ("isabs", "check") else m),
                   {"lines": [line], "impl": i, "model": m, "class": {"part": "gopath"}}, nf=True)
    # ---- 2. PAR2: fully repairable archives whose declared names come from the traversal corpus, at every position ----
    S = 4
    good = [("g1.dat", L.gen_content(rng, "random", 9)), ("sub/g2.dat", L.gen_content(rng, "random", 6)), ("g3", L.gen_content(rng, "random", 5))]
    cases = []
    for name in TRAVERSAL:
        for pos in range(len(good)):
            decl = {good[pos][0]: {"name": name}}
            try:
                ms = R.MutSet(good, S, decl=decl)
                arc = R.archive(ms, [0, 1, 2, 3])
            except Exception:
                continue
            arc = {p.replace(P.DIR, DEEP): d for p, d in arc.items()}
            # the declared files are "missing"; canary files around the archive directory
            fs = dict(arc)
            for k in range(1, 7):
                fs["/" + "/".join(DEEP.split("/")[1:k]) + ("/" if k > 1 else "") + "canary%d.txt" % k] = b"canary %d" % k
            fs["/c/a/x"] = b"do not touch"
            for q, (n, d) in enumerate(good):
                if q != pos and rng.random() < 0.5:
                    fs[DEEP + "/" + n] = d
            import posixpath
            dirs = [DEEP, DEEP + "/sub"]
            tgt = posixpath.normpath(DEEP + "/" + name) if "\0" not in name else DEEP
            if tgt.startswith(DEEP + "/") and posixpath.dirname(tgt) not in dirs:
                dirs.append(posixpath.dirname(tgt))          # the directory of an accepted name exists, as after a plain deletion
            cases.append({"fmt": "par2", "name": name, "pos": pos, "fs": fs,
                          "vline": L.line_verify("p2", "real", DEEP + "/arc.par2", 1, fs, dirs=dirs),
                          "rline": L.line_repair("p2", "real", DEEP + "/arc.par2", False, 1, fs, dirs=dirs)})
    # ---- 2b. PAR2: the same names smuggled in where a name might escape validation: a ZERO-LENGTH entry (gopar rejects empty
    # files - a reader that accepted them must still check the name), and the optional Unicode-filename packet of PAR 2.0
    # ("PAR 2.0\0UniFileN": file id + UTF-16 name), which gopar ignores - a reader that honoured it must check that name too ----
    for name in ("../x", "sub/../../x", "/abs", "a/../../x"):
        pos = 0
        for variant in ("zero-length", "zero-length-no-ifsc", "unifilen"):
            try:
                if variant.startswith("zero-length"):
                    ms = R.MutSet(good, S, decl={good[pos][0]: {"name": name, "len": 0, "pairs": [], "hash": W.md5(b""), "h16": W.md5(b""),
                                                                "no_ifsc": variant.endswith("no-ifsc")}})
                    arc = R.archive(ms, [0, 1, 2, 3])
                else:
                    ms = R.MutSet(good, S)
                    arc = R.archive(ms, [0, 1, 2, 3])
                    fid = [f_["id"] for f_ in ms.files if f_["name"] == good[pos][0]][0]
                    uni = W.packet(ms.setid, b"PAR 2.0\0UniFileN", fid + name.encode("utf-16-le") + (b"\0\0" if len(name) % 2 else b""))
                    arc = {p_: (d_ + uni if p_.endswith("arc.par2") else d_) for p_, d_ in arc.items()}
            except Exception:
                continue
            arc = {p_.replace(P.DIR, DEEP): d_ for p_, d_ in arc.items()}
            fs = dict(arc)
            for k in range(1, 7):
                fs["/" + "/".join(DEEP.split("/")[1:k]) + ("/" if k > 1 else "") + "canary%d.txt" % k] = b"canary %d" % k
            fs["/c/a/x"] = b"do not touch"
            for q_, (n_, d_) in enumerate(good):
                if q_ != pos:
                    fs[DEEP + "/" + n_] = d_            # the other files are intact: nothing else needs reconstruction
            cases.append({"fmt": "par2", "name": "%s (%s)" % (name, variant), "pos": pos, "fs": fs,
                          "vline": L.line_verify("p2", "real", DEEP + "/arc.par2", 1, fs, dirs=[DEEP, DEEP + "/sub"]),
                          "rline": L.line_repair("p2", "real", DEEP + "/arc.par2", False, 1, fs, dirs=[DEEP, DEEP + "/sub"])})
    # ---- 3. PAR1: declared entry names from the corpus ----
    gfiles = [("p1a.dat", L.gen_content(rng, "random", 11)), ("p1b.dat", L.gen_content(rng, "random", 8))]
    for name in TRAVERSAL:
        for pos in range(len(gfiles)):
            files = [(name if q == pos else n, d, True) for q, (n, d) in enumerate(gfiles)]
            try:
                ss = P1.SpecSet1(files, 2)
                arc = ss.archive("arc")
            except Exception:
                continue
            arc = {p.replace(P1.DIR, DEEP): d for p, d in arc.items()}
            fs = dict(arc)
            for k in range(1, 7):
                fs["/" + "/".join(DEEP.split("/")[1:k]) + ("/" if k > 1 else "") + "canary%d.txt" % k] = b"canary %d" % k
            fs["/c/a/x"] = b"do not touch"
            other = gfiles[1 - pos]
            fs[DEEP + "/" + other[0]] = other[1]
            cases.append({"fmt": "par1", "name": name, "pos": pos, "fs": fs,
                          "vline": P1.line_verify("real", DEEP + "/arc.par", True, fs, dirs=[DEEP]),
                          "rline": P1.line_repair("real", DEEP + "/arc.par", False, fs, dirs=[DEEP])})
    vi = ctx.run_lines(vh, [c["vline"] for c in cases]); vm = ctx.run_lines(model, [c["vline"] for c in cases])
    ri = ctx.run_lines(vh, [c["rline"] for c in cases]); rm = ctx.run_lines(model, [c["rline"] for c in cases])
    dist = {"path_function_cases": npath, "par2_cases": 0, "par1_cases": 0, "rejected": 0, "repaired_inside": 0}
    for c, a, b, x, y in zip(cases, vi, vm, ri, rm):
        dist[c["fmt"] + "_cases"] += 1
        pv, px = L.parse_result(a), L.parse_result(x)
        ctx.count("%s|%r|%d" % (c["fmt"], c["name"], c["pos"]), c["name"] not in ("a/../b", "./x"))
        replay = {"lines": [c["vline"], c["rline"]], "mode": "real", "format": c["fmt"], "declared_name": c["name"], "position": c["pos"],
                  "impl": [a[:1200], x[:1200]], "model": [b[:1200], y[:1200]], "class": {"part": c["fmt"]}}
        if pv["res"] in ("panic", "crash") or px["res"] in ("panic", "crash"):
            report("crash on an archive declaring the name %r" % c["name"], replay); continue
        bad = None
        for p in list(pv["changed"]) + list(px["changed"]):
            inside = p.startswith(DEEP + "/") and "/../" not in p
            if c["fmt"] == "par1":
                inside = inside and "/" not in p[len(DEEP) + 1:]
            if not inside:
                bad = "a path outside the archive's directory%s was created or modified: %s (declared name %r)" % (" tree" if c["fmt"] == "par2" else "", p, c["name"])
            if p.endswith(".par2") or p.endswith(".par") or ".p0" in p or "canary" in p:
                bad = "an archive or bystander file was modified: %s (declared name %r)" % (p, c["name"])
        if bad:
            report(bad, replay); continue
        dist["rejected"] += px["res"] != "ok"
        dist["repaired_inside"] += px["res"] == "ok" and bool(px["changed"])
        if "\0" in c["name"]:
            continue          # the operating system rejects NUL in paths (EINVAL), the in-memory model does not have that notion
        if L.canon(a, "real") != L.canon(b, "real"):
            report("Verify differs from the model for declared name %r (%s): impl=%s model=%s" % (c["name"], c["fmt"], a[:80], b[:80]), replay, nf=True)
        elif L.canon(x, "real") != L.canon(y, "real"):
            report("Repair differs from the model for declared name %r (%s): impl=%s model=%s" % (c["name"], c["fmt"], x[:80], y[:80]), replay, nf=True)
        if len(ctx.samples) < 6 and c["pos"] == 0 and c["name"] in ("a/../b", "../x", "sub/../../escaped.txt", ".", ".."):
            ctx.sample({"format": c["fmt"], "declared": c["name"], "repair": x.split(" trace=")[0], "changed": sorted(px["changed"])})
    # ---- 3b. the same Repairs and Verifies under strace: every file-system call of the operation - not only what is left on
    # disk - must stay below the archive's directory, and only non-archive paths below it may be written ----
    from . import osfoot
    fcs = []
    for c in cases:
        arch = {p_ for p_ in c["fs"] if p_.endswith(".par2") or p_.endswith(".par") or ".p0" in p_ or "canary" in p_}
        fcs.append({"line": c["rline"], "op": "repair", "writes": set(), "writes_prefix": DEEP + "/", "forbidden": arch, "below": DEEP,
                    "desc": "%s repair, declared name %r" % (c["fmt"], c["name"]), "case": c})
        if c["pos"] == 0:
            fcs.append({"line": c["vline"], "op": "verify", "writes": set(), "below": DEEP, "desc": "%s verify, declared name %r" % (c["fmt"], c["name"]), "case": c})
    try:
        _, judged = osfoot.run(ctx, vh, fcs)
    except Exception as e:
        judged = []
        dist["syscall_footprint"] = "not run: %s" % str(e)[:200]
    for fc, msgs in judged:
        dist["syscall_footprint_cases"] = dist.get("syscall_footprint_cases", 0) + 1
        if fc.get("reads_outside"):
            dist["cases_with_failed_reads_outside_the_directory"] = dist.get("cases_with_failed_reads_outside_the_directory", 0) + 1
        ctx.count("foot|%s|%r|%d|%s" % (fc["case"]["fmt"], fc["case"]["name"], fc["case"]["pos"], fc["op"]), True)
        if msgs:
            report("%s: %s" % (fc["desc"], "; ".join(sorted(set(msgs))[:4])),
                   {"lines": [fc["line"]], "mode": "real", "declared_name": fc["case"]["name"], "messages": sorted(set(msgs))[:20], "class": {"part": "syscall-footprint"}})
    # ---- 4. Create refuses inputs outside the index file's directory tree ----
    ok_in = {P.DIR + "/in.dat": b"inside", "/w/out.dat": b"outside", "/w/set2/x": b"sibling"}
    clines = [("outside: parent directory", L.line_create("p2", "mem", P.DIR + "/c.par2", 4, 1, 1, ["/w/out.dat"], ok_in)),
              ("outside: sibling directory", L.line_create("p2", "mem", P.DIR + "/c.par2", 4, 1, 1, [P.DIR + "/in.dat", "/w/set2/x"], ok_in)),
              ("outside: dotdot spelling", L.line_create("p2", "mem", P.DIR + "/c.par2", 4, 1, 1, [P.DIR + "/../out.dat"], ok_in)),
              ("inside: dotdot spelling that stays inside", L.line_create("p2", "mem", P.DIR + "/c.par2", 4, 1, 1, [P.DIR + "/sub/../in.dat"], ok_in))]
    ci = ctx.run_lines(vh, [c[1] for c in clines]); cm = ctx.run_lines(model, [c[1] for c in clines])
    for (what, line), i, m in zip(clines, ci, cm):
        pi = L.parse_result(i)
        ctx.count("create|" + what, True)
        if what.startswith("outside") and pi["res"] == "ok":
            report("Create protected a file outside the index file's directory tree (%s)" % what, {"lines": [line], "impl": i[:600], "class": {"part": "create"}})
        elif L.canon(i, "mem") != L.canon(m, "mem"):
            report("Create containment differs from the model (%s): impl=%s model=%s" % (what, i[:80], m[:80]), {"lines": [line], "impl": i[:600], "model": m[:600], "class": {"part": "create"}}, nf=True)
    return ctx.finish(
        "proof",
        rule="(1) the path model vs Go's path.Clean/IsAbs/Ext, filepath.Dir/Base/Join and gopar's checkFilename on EVERY string over {a . /} up to length 7 (thorough 8) plus unicode, NUL, backslash, long runs; (2) fully repairable PAR2 archives by the independent writer whose declared names come from a traversal corpus (49 spellings: ../x, a/../../x, /abs, ., .., empty, ..a, trailing slash, backslashes, NUL ..., and NEAR MISSES that leave the directory only if the name is normalised after validation: surrounding white space, control / escaped characters inside the dot-dot) at every position of the set, declared files missing, on a real directory seven levels deep with canary files at every level; (3) the same for PAR1 entries; (3b) all these Repairs and a third of the Verifies again under strace: every create/truncate/rename/unlink/mkdir/chmod between the harness markers targets a non-archive path below the archive's directory (reads outside it - PAR1 accepts the entry name '..', whose read fails - are counted in the evidence, not judged: the property speaks of creating, modifying and deleting); (4) Create with inputs outside the index directory; non-trivial = the declared name is not its own clean inside name",
        exhaustive=True,
        extra={"input_distribution": dist,
               "predicate": "after Verify and Repair nothing outside the archive's directory tree (PAR1: directory) was created, modified or deleted (whole scratch tree snapshotted); archive and canary files untouched",
               "compared": "path functions (exhaustive small alphabet), outcome class, repaired paths, changed files vs the extracted model"})
