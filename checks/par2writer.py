"""An independent PAR 2.0 writer, written from the specification text (not from gopar), with a free layout:
any packet order, duplicates, any assignment of packets to files, any exponent subset, foreign-set and
unknown-type packets.  Used by C06 (reader direction), C13/C19 (re-checksummed mutations) and C15."""
import hashlib
import struct
import zlib
from .gf import gmul, gpow

MAGIC = b"PAR2\0PKT"


def ptype(tail):
    return (b"PAR 2.0\0" + tail).ljust(16, b"\0")


T_MAIN, T_FDESC, T_IFSC, T_RECV, T_CREATOR = ptype(b"Main"), ptype(b"FileDesc"), ptype(b"IFSC"), ptype(b"RecvSlic"), ptype(b"Creator")


def md5(b):
    return hashlib.md5(b).digest()


def pad4(b):
    return b + b"\0" * ((4 - len(b) % 4) % 4)


def packet(setid, typ, body, length=None, fix_hash=True, hash_override=None):
    """frame a packet; length / hash can be overridden for mutation grids (length is outside the hash)"""
    h = md5(setid + typ + body) if hash_override is None else hash_override
    ln = 64 + len(body) if length is None else length
    return MAGIC + struct.pack("<Q", ln & 0xFFFFFFFFFFFFFFFF) + h + setid + typ + body


def constants(n):
    out, i = [], 0
    while len(out) < n:
        if i % 3 and i % 5 and i % 17 and i % 257:
            out.append(gpow(2, i))
        i += 1
    return out


class SpecSet:
    """files: list of (name str, data bytes); slice size S"""

    def __init__(self, files, S):
        self.S = S
        self.files = []
        for name, data in files:
            nb = name.encode("latin-1")
            h16 = md5(data[:16384])
            fid = md5(h16 + struct.pack("<Q", len(data)) + nb)
            self.files.append({"name": name, "data": data, "id": fid, "h16": h16, "hash": md5(data)})
        self.files.sort(key=lambda f: int.from_bytes(f["id"], "little"))
        self.main_body = struct.pack("<QI", S, len(self.files)) + b"".join(f["id"] for f in self.files)
        self.setid = md5(self.main_body)
        self.slices = []
        for f in self.files:
            d = f["data"]
            f["slices"] = [d[i:i + S].ljust(S, b"\0") for i in range(0, len(d), S)]
            self.slices += f["slices"]
        self.consts = constants(len(self.slices))

    # --- packet bodies ---
    def fdesc_body(self, f, name=None, length=None, h16=None, hash_=None, fid=None, recompute_id=True):
        nb = (f["name"] if name is None else name).encode("latin-1")
        ln = len(f["data"]) if length is None else length
        h16 = f["h16"] if h16 is None else h16
        hs = f["hash"] if hash_ is None else hash_
        if fid is None:
            fid = md5(h16 + struct.pack("<Q", ln & 0xFFFFFFFFFFFFFFFF) + nb) if recompute_id else f["id"]
        return fid + hs + h16 + struct.pack("<Q", ln & 0xFFFFFFFFFFFFFFFF) + pad4(nb)

    def ifsc_body(self, f, fid=None, pairs=None):
        if pairs is None:
            pairs = [(md5(s), zlib.crc32(s)) for s in f["slices"]]
        return (f["id"] if fid is None else fid) + b"".join(m + struct.pack("<I", c) for m, c in pairs)

    def recv_block(self, e):
        nw = self.S // 2
        acc = [0] * nw
        for c, s in zip(self.consts, self.slices):
            k = gpow(c, e)
            ws = struct.unpack("<%dH" % nw, s)
            for i in range(nw):
                if ws[i]:
                    acc[i] ^= gmul(k, ws[i])
        return struct.pack("<%dH" % nw, *acc)

    def recv_body(self, e, data=None):
        return struct.pack("<I", e) + (self.recv_block(e) if data is None else data)

    # --- framed packets ---
    def p_main(self):
        return packet(self.setid, T_MAIN, self.main_body)

    def p_creator(self, text=b"spec-writer 1.0"):
        return packet(self.setid, T_CREATOR, pad4(text))

    def p_fdesc(self, f):
        return packet(self.setid, T_FDESC, self.fdesc_body(f))

    def p_ifsc(self, f):
        return packet(self.setid, T_IFSC, self.ifsc_body(f))

    def p_recv(self, e):
        return packet(self.setid, T_RECV, self.recv_body(e))

    def core_packets(self):
        out = [self.p_main()]
        for f in self.files:
            out += [self.p_fdesc(f), self.p_ifsc(f)]
        return out


def foreign_packet(rng):
    sid = bytes(rng.randrange(256) for _ in range(16))
    return packet(sid, rng.choice([T_MAIN, T_RECV, T_CREATOR, ptype(b"Whatever")]), bytes(rng.randrange(256) for _ in range(4 * rng.randrange(1, 8))))


def unknown_packet(setid, rng):
    return packet(setid, ptype(b"UnkType" + bytes([65 + rng.randrange(26)])), bytes(rng.randrange(256) for _ in range(4 * rng.randrange(0, 6))))
