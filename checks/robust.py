"""C13 / C19 — mutation grids over PAR2 (and PAR1) archives: implementation vs model, never a crash, truthful results."""
import struct
from . import p2lib as L
from . import par2common as P
from . import par2writer as W


def packet_bounds(b):
    """offsets of back-to-back packets in a well-formed file: [(start, length)]"""
    out, o = [], 0
    while o + 64 <= len(b) and b[o:o + 8] == W.MAGIC:
        ln = struct.unpack("<Q", b[o + 8:o + 16])[0]
        if ln < 64 or o + ln > len(b):
            break
        out.append((o, ln))
        o += ln
    return out


def small_set(rng):
    ps = P.PSet({"a.dat": L.gen_content(rng, "random", 10), "sub/b.dat": L.gen_content(rng, "random", 7)}, 4, 3, g=1, tag="c13 set")
    ps.bystanders = {P.DIR + "/unrelated.txt": b"keep me"}
    return ps


def c13_mutations(rng, ps, thorough):
    """yield (desc, fs) : damaged archive files, data files intact or one deleted"""
    base = ps.created
    arch = [ps.index] + ps.volumes
    out = []
    for p in arch:
        b = base[p]
        bounds = packet_bounds(b)
        short = p.rsplit("/", 1)[1]
        cuts = set()
        for (o, ln) in bounds:
            cuts.add(o); cuts.add(o + ln)
            for k in range(1, 65):                       # every byte of every packet header
                cuts.add(o + k)
            for k in rng.sample(range(64, ln), min(6, ln - 64)) if ln > 64 else []:
                cuts.add(o + k)
        if p == ps.index or thorough:
            cuts |= set(range(len(b)))
        for c in sorted(cuts):
            if c < len(b):
                out.append(("truncate:%s@%d" % (short, c), {p: b[:c]}))
        # every bit of every header field of the first packet of each type, sampled payload bits
        seen_types = set()
        for (o, ln) in bounds:
            ty = b[o + 48:o + 64]
            first = ty not in seen_types
            seen_types.add(ty)
            if first or thorough:
                for byte in range(64):
                    for bit in range(8):
                        if byte >= 16 and not first and bit:
                            continue
                        if 16 <= byte < 64 and bit not in (0, 7) and not thorough:
                            continue                     # hash / set id / type: two bits per byte in the quick tier
                        nb = bytearray(b); nb[o + byte] ^= 1 << bit
                        out.append(("flip:%s@%d.%d" % (short, o + byte, bit), {p: bytes(nb)}))
            for _ in range(4):
                if ln > 64:
                    k = o + rng.randrange(64, ln)
                    nb = bytearray(b); nb[k] ^= 1 << rng.randrange(8)
                    out.append(("flip-payload:%s@%d" % (short, k), {p: bytes(nb)}))
        out.append(("empty:" + short, {p: b""}))
        out.append(("garbage:" + short, {p: L.gen_content(rng, "random", len(b))}))
        out.append(("garbage-magic:" + short, {p: W.MAGIC + L.gen_content(rng, "random", 70)}))
        out.append(("delete:" + short, {p: None}))
        out.append(("append-garbage:" + short, {p: b + L.gen_content(rng, "random", 5)}))
    # deletion of every subset of the archive files (small set)
    import itertools
    for r in range(2, len(arch) + 1):
        for sub in itertools.combinations(arch, r):
            out.append(("delete-subset:%d" % len(sub), {p: None for p in sub}))
    # interrupted Create: every prefix of the write sequence, the last written file torn at every packet boundary (and mid-header)
    for k, p in enumerate(arch):
        later = {q: None for q in arch[k + 1:]}
        for (o, ln) in packet_bounds(base[p]):
            for cut in (o, o + 13, o + 64):
                if cut < len(base[p]):
                    m = dict(later); m[p] = base[p][:cut]
                    out.append(("interrupted-create:%d files, last torn@%d" % (k + 1, cut), m))
        m = dict(later)
        out.append(("interrupted-create:%d files complete" % (k + 1), m))
    return out


def apply_mut(fs, mut):
    out = dict(fs)
    for p, d in mut.items():
        if d is None:
            out.pop(p, None)
        else:
            out[p] = d
    return out


def truthful_violation(ps, fs, verify_parsed, repair_parsed):
    """property predicates on the implementation's own output; returns a message or None"""
    from .c03 import slices, present_somewhere
    ca = P.counts_of(verify_parsed)
    if verify_parsed["changed"]:
        return "Verify modified files"
    if ca:
        sl = slices(ps)
        present = sum(1 for (_, _, s) in sl if present_somewhere(ps, fs, s))
        if ca["usable"] > present:
            return "%d slices reported usable but only %d are present" % (ca["usable"], present)
        if ps.volumes and ca["pusable"] > P.intact_block_count(ps, fs):
            # "recovery blocks reported usable really are intact": counted by a byte search for the complete original packets
            return "%d recovery blocks reported usable but only %d complete recovery packets are present beside the index" % (ca["pusable"], P.intact_block_count(ps, fs))
        if ca["needed"] == 0 and P.originals_ok(ps, fs):
            return "no repair needed reported although files differ: %s" % P.originals_ok(ps, fs)
    protected = {ps.paths[n]: ps.files[n] for n in ps.files}
    for p, d in repair_parsed["changed"].items():
        if p not in protected:
            return "Repair modified a file that is not protected: %s" % p
        if d != protected[p]:
            return "Repair wrote bytes that are not the original: %s" % p
    if repair_parsed["res"] == "ok" and P.originals_ok(ps, L.apply_changed(fs, repair_parsed["changed"])):
        return "Repair reported success but files differ from their originals"
    return None


# ---------------------------------------------------------------------------------------------
# C19: well-checksummed but inconsistent PAR2 sets, built by the independent writer with overrides
class MutSet(W.SpecSet):
    """A SpecSet whose declared fields can be overridden BEFORE ids / set id / hashes are computed, so that every
    packet is correctly checksummed and only semantic validation can reject the set.
      decl[i] = {"len": int, "name": str, "hash": bytes, "h16": bytes, "pairs": [(md5, crc)], "pairs_delta": int}
      main = {"slice": int, "count": int, "ids": callable(list)->list, "extra_ids": [bytes], "truncate": int}
    """

    def __init__(self, files, S, decl=None, main=None):
        super().__init__(files, S)
        self.decl = decl or {}
        self.mainov = main or {}
        import struct as st
        for i, f in enumerate(self.files):
            d = self.decl.get(f["name"], {})
            f["skip_ifsc"] = d.get("no_ifsc", False)
            f["d_len"] = d.get("len", len(f["data"]))
            f["d_name"] = d.get("name", f["name"])
            f["d_hash"] = d.get("hash", f["hash"])
            f["d_h16"] = d.get("h16", f["h16"])
            f["id"] = W.md5(f["d_h16"] + st.pack("<Q", f["d_len"] & 0xFFFFFFFFFFFFFFFF) + f["d_name"].encode("latin-1"))
            pairs = [(W.md5(s), zlib_crc(s)) for s in f["slices"]]
            if "pairs" in d:
                pairs = d["pairs"]
            pd = d.get("pairs_delta", 0)
            if pd < 0:
                pairs = pairs[:pd]
            elif pd > 0:
                pairs = pairs + [(W.md5(b"extra%d" % k), 0x12345678 + k) for k in range(pd)]
            f["d_pairs"] = pairs
        self.files.sort(key=lambda f: int.from_bytes(f["id"], "little"))
        ids = [f["id"] for f in self.files]
        if "ids" in self.mainov:
            ids = self.mainov["ids"](ids)
        ids = ids + self.mainov.get("extra_ids", [])
        body = st.pack("<QI", self.mainov.get("slice", S) & 0xFFFFFFFFFFFFFFFF, self.mainov.get("count", len(self.files)) & 0xFFFFFFFF) + b"".join(ids)
        if "truncate" in self.mainov:
            body = body[:self.mainov["truncate"]]
        self.main_body = body
        self.setid = W.md5(W.pad4(body))
        # recovery data is computed from the true slices in the (possibly re-sorted) file order
        self.slices = []
        for f in self.files:
            self.slices += f["slices"]
        self.consts = W.constants(len(self.slices))

    def p_main(self):
        return W.packet(self.setid, W.T_MAIN, W.pad4(self.main_body))

    def p_fdesc(self, f):
        import struct as st
        body = f["id"] + f["d_hash"] + f["d_h16"] + st.pack("<Q", f["d_len"] & 0xFFFFFFFFFFFFFFFF) + W.pad4(f["d_name"].encode("latin-1"))
        return W.packet(self.setid, W.T_FDESC, body)

    def p_ifsc(self, f):
        import struct as st
        return W.packet(self.setid, W.T_IFSC, f["id"] + b"".join(m + st.pack("<I", c & 0xFFFFFFFF) for m, c in f["d_pairs"]))


def zlib_crc(b):
    import zlib
    return zlib.crc32(b)


def archive(ms, exps, index_drop=(), index_dup=(), vol_drop=(), vol_dup=(), recv_override=None, extra_recv=()):
    """index + one volume; *_drop / *_dup name packet kinds: creator, main, fdesc, ifsc"""
    def build(drop, dup, recvs):
        pk = []
        if "creator" not in drop:
            pk.append(ms.p_creator())
        if "main" not in drop:
            pk.append(ms.p_main())
        for f in ms.files:
            if "fdesc" not in drop:
                pk.append(ms.p_fdesc(f))
            if "ifsc" not in drop and not f.get("skip_ifsc"):
                pk.append(ms.p_ifsc(f))
        pk += recvs
        for kind in dup:
            if kind == "creator":
                pk.append(ms.p_creator())
            elif kind == "main":
                pk.append(ms.p_main())
            elif kind == "fdesc":
                pk.append(ms.p_fdesc(ms.files[0]))
            elif kind == "ifsc":
                pk.append(ms.p_ifsc(ms.files[0]))
        return b"".join(pk)
    recvs = []
    for e in exps:
        if recv_override and e in recv_override:
            ee, data = recv_override[e]
            recvs.append(W.packet(ms.setid, W.T_RECV, struct.pack("<I", ee & 0xFFFFFFFF) + data))
        else:
            recvs.append(ms.p_recv(e))
    recvs += list(extra_recv)
    return {P.DIR + "/arc.par2": build(index_drop, index_dup, []), P.DIR + "/arc.vol.par2": build(vol_drop, vol_dup, recvs)}
