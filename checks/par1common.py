"""PAR 1.0: line builders, an independent writer and validator (from the specification), scenario parts for C02/C13/C19."""
import hashlib
import struct
from . import p2lib as L

DIR = "/w/p1"


def line_create(mode, par, nvol, files, fs, sched=()):
    return " ".join(["p1", "create", mode, L.hx(par), str(nvol), str(len(files))] + [L.hx(f) for f in files] + L.fs_tokens(fs, sched))


def line_verify(mode, index, alldata, fs, sched=(), dirs=()):
    return " ".join(["p1", "verify", mode, L.hx(index), "1" if alldata else "0"] + L.fs_tokens(fs, sched, dirs))


def line_repair(mode, index, dbl, fs, sched=(), dirs=()):
    return " ".join(["p1", "repair", mode, L.hx(index), "1" if dbl else "0"] + L.fs_tokens(fs, sched, dirs))


def md5(b):
    return hashlib.md5(b).digest()


# ---- GF(2^8) mod 0x11D, independent of gopar and of the Coq model ----
def g8mul(a, b):
    r = 0
    while b:
        if b & 1:
            r ^= a
        b >>= 1
        a <<= 1
        if a & 0x100:
            a ^= 0x11D
    return r


def g8pow(a, n):
    r = 1
    for _ in range(n):
        r = g8mul(r, a)
    return r


def parity_volume(datas, v):
    """volume v (1-based): sum_i i^(v-1) * file_i, files numbered from 1, zero-padded to the longest"""
    size = max(len(d) for d in datas)
    out = bytearray(size)
    for i, d in enumerate(datas, start=1):
        c = g8pow(i, v - 1)
        if c == 1:
            for k, x in enumerate(d):
                out[k] ^= x
        else:
            tab = [g8mul(c, x) for x in range(256)]
            for k, x in enumerate(d):
                out[k] ^= tab[x]
    return bytes(out)


def utf16le(name):
    """name: python str of code points (may include astral characters)"""
    return name.encode("utf-16-le")


def to_go(name):
    """the byte string Go sees (UTF-8), as a latin-1 str for the protocol"""
    return name.encode("utf-8").decode("latin-1")


def entry_bytes(name, data, status=1, length=None, hash_=None, h16=None):
    nb = utf16le(name)
    return struct.pack("<QQQ", 56 + len(nb), status, len(data) if length is None else length) + \
        (md5(data) if hash_ is None else hash_) + (md5(data[:16384]) if h16 is None else h16) + nb


def volume_bytes(entries_raw, saved_hashes, number, data, count=None, flo=0x60, version=0x00010000, ident=b"PAR\0\0\0\0\0", sethash=None, fix_control=True, flb=None, databytes=None, dataoff=None):
    rest = b"".join(entries_raw) + data
    flb = (len(rest) - len(data)) if flb is None else flb
    sh = md5(b"".join(saved_hashes)) if sethash is None else sethash
    tail = sh + struct.pack("<QQQQQQ", number, len(entries_raw) if count is None else count, flo, flb & 0xFFFFFFFFFFFFFFFF, ((0x60 + flb) if dataoff is None else dataoff) & 0xFFFFFFFFFFFFFFFF, len(data) if databytes is None else databytes)
    control = md5(tail + rest) if fix_control else bytes(16)
    return ident + struct.pack("<Q", version) + control + tail + rest


class SpecSet1:
    """files: list of (name str, data, saved bool); an independent PAR 1.0 writer"""

    def __init__(self, files, nvol, comment=b"", client=0):
        # client: the 4 bytes at 0x0C, the generating program's own id/version (free for the writer to choose)
        self.version = ((client & 0xFFFFFFFF) << 32) | 0x00010000
        self.files = files
        self.nvol = nvol
        self.comment = comment
        self.saved = [(n, d) for n, d, s in files if s]
        self.entries = [entry_bytes(n, d, status=1 if s else 0) for n, d, s in files]
        self.hashes = [md5(d) for n, d, s in files if s]

    def index(self):
        return volume_bytes(self.entries, self.hashes, 0, self.comment, version=self.version)

    def volume(self, v):
        return volume_bytes(self.entries, self.hashes, v, parity_volume([d for _, d in self.saved], v), version=self.version)

    def archive(self, base, vols=None):
        out = {DIR + "/" + base + ".par": self.index()}
        for v in (vols if vols is not None else range(1, self.nvol + 1)):
            out[DIR + "/" + base + ".p%02d" % v] = self.volume(v)
        return out


def validate_volume(b, names, datas, number):
    """specification-side check of one file gopar wrote; returns None or a message"""
    if len(b) < 96:
        return "shorter than a header"
    if b[:8] != b"PAR\0\0\0\0\0":
        return "bad identification string"
    ver, = struct.unpack("<Q", b[8:16])
    if ver & 0xFFFFFFFF != 0x00010000:
        return "bad version"
    if md5(b[0x20:]) != b[16:32]:
        return "control hash is not the MD5 of the bytes from offset 0x20"
    sethash = b[32:48]
    vol, count, flo, flb, do, db = struct.unpack("<QQQQQQ", b[48:96])
    if vol != number:
        return "volume number %d, expected %d" % (vol, number)
    if count != len(names):
        return "file count %d, expected %d" % (count, len(names))
    if flo != 0x60:
        return "file list offset"
    o = 0x60
    hashes = []
    for n, d in zip(names, datas):
        if o + 56 > len(b):
            return "entry beyond end"
        eb, status, fb = struct.unpack("<QQQ", b[o:o + 24])
        nb = utf16le(n)
        if eb != 56 + len(nb):
            return "entry size %d for name %r, expected %d" % (eb, n, 56 + len(nb))
        if status & 1 != 1:
            return "entry not marked as saved in the volume set"
        if fb != len(d):
            return "file size field"
        if b[o + 24:o + 40] != md5(d):
            return "file hash"
        if b[o + 40:o + 56] != md5(d[:16384]):
            return "16k hash"
        if b[o + 56:o + eb] != nb:
            return "name is not the UTF-16LE encoding of %r" % n
        hashes.append(md5(d))
        o += eb
    if flb != o - 0x60:
        return "file list size %d, expected %d" % (flb, o - 0x60)
    if do != o:
        return "data offset"
    if db != len(b) - o:
        return "data size"
    if sethash != md5(b"".join(hashes)):
        return "set hash is not the MD5 of the saved files' hashes"
    data = b[o:]
    if number == 0:
        if data:
            return "index volume carries data"
    else:
        want = parity_volume(datas, number)
        if data != want:
            return "parity data is not sum_i i^(v-1)*file_i over GF(2^8) mod 0x11D"
    return None


NAMES1 = ["a.dat", "b b.bin", "café.txt", "日本語", "clef\U0001D11E.mus", "e", "UPPER.DAT", "x.par.bak", "ü\U0001F600ß",
          "tail\U0001F600", "\U0001D11E", "\U0001F600\U0001F601", "\uffff\ue000.x",
          "name\u4e00", "x\uac00", "voila\u0300", "\u0100\u0100", ".hidden", "..\u00dcbung.cfg", "...", ".a.b."]   # last UTF-16 unit has a zero LOW byte (looks like NUL padding to a sloppy reader)   # astral characters first, last, alone, adjacent
SIZES1 = [0, 1, 7, 100, 16383, 16384, 20000]


def gen_files(rng, nf, allow_big=True):
    # names rotate through the corpus so that every name is used within a few calls (the draw only permutes them)
    k0 = getattr(gen_files, "cursor", 0)
    if nf <= len(NAMES1):
        names = [NAMES1[(k0 + i) % len(NAMES1)] for i in range(nf)]
        gen_files.cursor = (k0 + nf) % len(NAMES1)
        rng.shuffle(names)
    else:
        names = NAMES1 + ["f%02d" % i for i in range(nf - len(NAMES1))]
    out = []
    for n in names:
        sz = rng.choice(SIZES1 if allow_big else SIZES1[:4])
        out.append((n, L.gen_content(rng, rng.choice(["random", "lowent"]), sz) if sz else b""))
    if all(len(d) == 0 for _, d in out):
        out[0] = (out[0][0], b"x")
    return out


# the parts of C02 / C13 / C19 that concern PAR1 are appended by those checks when this module is importable
def c02_part(ctx, vh, model, report, extra):
    from . import c04
    c04.c02_part(ctx, vh, model, report, extra)


def c13_part(ctx, vh, model, report, extra):
    from . import c04
    c04.c13_part(ctx, vh, model, report, extra)


def c19_part(ctx, vh, model, report, extra):
    from . import c04
    c04.c19_part(ctx, vh, model, report, extra)
