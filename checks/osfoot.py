"""Syscall-level footprint of the operations on a REAL directory (C02, C15): the harness is run under strace, and every
file-system call the operation makes between the harness's two markers is judged - whatever the directory looks like
afterwards.  A write to a temporary name that is renamed away, a probe outside the set's directory, a deleted and
re-created bystander: none of these shows in a before/after snapshot.

case = {"line": harness line (mode real), "op": "verify"|"repair"|"create", "writes": set of virtual paths the operation
        may write (create/truncate/rename-to), "below": virtual directory every access must stay below (or None),
        optionally "writes_prefix": any path with this prefix may be written too, except those in "forbidden"}
"""
import codecs
import os
import re
import subprocess

WRITE_CALLS = {"creat", "truncate", "mkdir", "mkdirat", "rmdir", "unlink", "unlinkat", "rename", "renameat", "renameat2",
               "link", "linkat", "symlink", "symlinkat", "chmod", "fchmodat", "chown", "lchown", "fchownat", "mknod", "mknodat",
               "utime", "utimes", "utimensat", "futimesat", "setxattr", "lsetxattr", "removexattr", "lremovexattr"}
WRITE_FLAGS = ("O_WRONLY", "O_RDWR", "O_CREAT", "O_TRUNC", "O_APPEND")
# what the Go runtime and the dynamic loader look at by themselves
RUNTIME_PREFIXES = ("/proc/", "/sys/", "/dev/", "/etc/", "/usr/", "/lib", "/VH-MARK-")
LINE = re.compile(r"^(\d+)\s+(?:<\.\.\.\s+)?(\w+)(?:\s+resumed>)?(.*)$")
STR = re.compile(r'"((?:[^"\\]|\\.)*)"')


def unescape(s):
    return codecs.decode(s.encode("latin-1", "backslashreplace"), "unicode_escape")


def parse(logpath):
    """-> list of sections; a section = (root, [(syscall, [paths], rest-of-line)])"""
    sections, cur = [], None
    for raw in open(logpath, errors="replace"):
        m = LINE.match(raw.rstrip("\n"))
        if not m:
            continue
        call, rest = m.group(2), m.group(3)
        paths = [unescape(x) for x in STR.findall(rest)]
        mark = [p for p in paths if p.startswith("/VH-MARK-")]
        if mark:
            if mark[0].startswith("/VH-MARK-BEGIN"):
                cur = (mark[0][len("/VH-MARK-BEGIN"):], [])
            elif cur is not None:
                sections.append(cur)
                cur = None
            continue
        if cur is not None and paths and "resumed>" not in raw:
            cur[1].append((call, paths, rest))
    return sections


def judge(case, section):
    """-> list of messages"""
    root, calls = section
    bad = []
    below = case.get("below")
    allowed = set(case.get("writes") or ())
    dirs_ok = set()
    for w in allowed:
        d = os.path.dirname(w)
        while d and d != "/":
            dirs_ok.add(d)
            d = os.path.dirname(d)
    for call, paths, rest in calls:
        writeish = call in WRITE_CALLS or (call in ("open", "openat", "openat2") and any(f in rest for f in WRITE_FLAGS))
        for p in paths:
            if p.startswith(RUNTIME_PREFIXES) or p in ("", "."):
                continue
            if not writeish and not case.get("below_reads"):
                # the properties speak of creating, modifying and deleting: a read that merely fails (PAR1 accepts the
                # entry name ".." and the read of that directory fails) is counted, not judged
                if not p.startswith(root + "/") or (below and not (p[len(root):] == below or p[len(root):].startswith(below.rstrip("/") + "/"))):
                    case["reads_outside"] = case.get("reads_outside", 0) + 1
                continue
            if not p.startswith(root + "/") and p != root:
                bad.append("%s touches %r, outside the working tree" % (call, p))
                continue
            v = p[len(root):]
            if below and not (v == below or v.startswith(below.rstrip("/") + "/")):
                bad.append("%s touches %s, outside the set's directory %s" % (call, v, below))
        if not writeish:
            continue
        for p in paths:
            if not p.startswith(root):
                continue
            v = p[len(root):]
            if call in ("mkdir", "mkdirat") and v in dirs_ok:
                continue
            wp = case.get("writes_prefix")
            if wp and v.startswith(wp) and v not in (case.get("forbidden") or ()):
                if call in ("mkdir", "mkdirat") or "/../" not in v:
                    continue
            if v not in allowed:
                bad.append("%s on %s, which %s may not write" % (call, v, case["op"]))
    return bad


def run(ctx, vh, cases):
    """runs the cases' lines in ONE harness process under strace; -> (results, [(case, messages)])"""
    if not cases:
        return [], []
    log = os.path.join(ctx.tmp, "strace-%d.log" % len(os.listdir(ctx.tmp)))
    cmd = ["strace", "-f", "-qq", "-e", "trace=%file", "-o", log, vh]
    pr = subprocess.run(cmd, input="\n".join(c["line"] for c in cases) + "\n", stdout=subprocess.PIPE, stderr=subprocess.PIPE, text=True, timeout=3000)
    outl = pr.stdout.split("\n")
    if outl and outl[-1] == "":
        outl.pop()
    sections = parse(log)
    if pr.returncode != 0 or len(outl) != len(cases) or len(sections) != len(cases):
        raise RuntimeError("strace run failed: rc=%s results=%d sections=%d of %d: %s" % (pr.returncode, len(outl), len(sections), len(cases), pr.stderr[-300:]))
    os.remove(log)
    return outl, [(c, judge(c, s)) for c, s in zip(cases, sections)]
