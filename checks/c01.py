"""C01 — PAR2 repair restores every protected file exactly, within recovery capacity."""
import json
from . import p2lib as L
from . import par2common as P


def build_cases(ctx, vh, model, nsets=40, real_frac=0.25, volume_damage=False):
    rng = ctx.rng
    thorough = ctx.tier == "thorough"
    sets = [P.gen_set(rng) for _ in range(nsets if not thorough else 4 * nsets)]
    sets += [P.gen_set(rng, big=True, slice_choices=(2000, 4096), maxfiles=3, nparity=4) for _ in range(3 if not thorough else 10)]
    # more than 256 slices: different Vandermonde constants, 16-bit exponent arithmetic
    sets.append(P.PSet({"big.bin": L.gen_content(rng, "random", 4 * 300 + 2), "s.bin": L.gen_content(rng, "random", 9)}, 4, 6, g=3, tag=">256 slices"))
    sets.append(P.PSet({"dup.bin": L.gen_content(rng, "dupslices", 8 * 40, 8), "z.bin": bytes(64)}, 8, 5, g=2, tag="duplicate slices"))
    # 140 slices and 259 blocks: with only blocks {0, 255..258} left and slices 1, 130, 131 damaged, the PAR2 matrix
    # has a singular leading minor and the decoder must exchange rows of a wide augmented system
    rs = P.PSet({"rowswap.bin": L.gen_content(rng, "random", 4 * 140)}, 4, 259, g=2, tag="rowswap")
    rs.rowswap = True
    sets.append(rs)
    # protected files whose names look like one another's temporary or backup copies: restoring one must not touch the others
    tl = P.PSet({n_: L.gen_content(rng, "random", rng.choice([5, 9, 13])) for n_ in ("x.dat", "x.dat.tmp", "x.dat.1", "x.dat~", "x.dat.bak", "x.dat.swp")},
                4, 6, g=1, tag="temporary-like names")
    tl.force_real = True
    sets.append(tl)
    if thorough:
        sets.append(P.PSet({"huge.bin": L.gen_content(rng, "random", 4 * 3000)}, 4, 9, g=5, tag="3000 slices"))
    for ps in sets:
        if not ps.bystanders:
            ps.bystanders = {P.DIR + "/unrelated.txt": b"keep me"}
    created = P.create_all(ctx, vh, model, sets)
    cases = []
    for ps, line, i, m in created:
        if i != m:
            ctx.violation("Create differs from the model (set %s): impl=%s model=%s" % (ps.tag, i[:120], m[:120]),
                          {"line": line, "impl": i[:2000], "model": m[:2000], "class": {"op": "create"}}, no_failing_input=True)
        if ps.created is None:
            continue
        base = ps.created
        if getattr(ps, "rowswap", False):
            p = ps.paths["rowswap.bin"]
            d = base[p]
            # (1, 129) alone: the two lowest surviving blocks {0, 255} form a SINGULAR system for these two slices (their
            # constants agree in the 255th power): the one failure the property permits - it must be the singular error,
            # with nothing written
            for trip in ((1, 129, 130), (1, 129, 135), (1, 129)):
                nd = bytearray(d)
                for sl in trip:
                    nd[4 * sl] ^= 0x55
                fs2 = dict(base); fs2[p] = bytes(nd)
                keep = [v for v in ps.volumes if "vol00+01" in v or "vol255+" in v]
                _, fs2 = P.drop_volumes(rng, ps, fs2, keep=keep)
                cases.append({"set": ps, "desc": "rowswap:%s|keepvols:0,255..258" % (trip,), "fs": fs2, "dbl": True, "mode": "mem",
                              "vline": L.line_verify("p2", "mem", ps.index, 1, fs2),
                              "rline": L.line_repair("p2", "mem", ps.index, True, 2, fs2)})
            continue
        damages = P.damage_ops(rng, ps, base)
        rng.shuffle(damages)
        limit = 10 if not thorough else 30
        if ps.nslices() > 200:
            limit = 5
        chosen = damages[:limit]
        # combined damage: two independent damages
        for _ in range(3):
            if len(damages) >= 2:
                (d1, f1), (d2, f2) = rng.sample(damages, 2)
                nfs = dict(f1)
                for p in ps.paths.values():
                    if f2.get(p) != base.get(p):
                        if p in f2:
                            nfs[p] = f2[p]
                        else:
                            nfs.pop(p, None)
                chosen.append((d1 + "+" + d2, nfs))
        for desc, fs in chosen:
            vdesc, fs2 = P.drop_volumes(rng, ps, fs) if rng.random() < 0.6 else ("allvols", fs)
            dbl = rng.random() < 0.5
            g = rng.choice([1, 3])
            mode = "real" if (rng.random() < real_frac or (getattr(ps, "force_real", False) and real_frac > 0)) else "mem"
            if volume_damage and ps.volumes and rng.random() < 0.35:
                fs2 = dict(fs2)
                v = rng.choice(ps.volumes)
                how = rng.choice(["flip", "flip", "truncate", "foreign", "garbage", "prepend", "append", "cutmiddle"])
                if v in fs2:
                    d = fs2[v]
                    if how == "flip":
                        pos = rng.randrange(len(d)); fs2[v] = d[:pos] + bytes([d[pos] ^ 0x10]) + d[pos + 1:]
                    elif how == "truncate":
                        fs2[v] = d[:rng.randrange(len(d))]
                    elif how == "garbage":
                        fs2[v] = L.gen_content(rng, "random", 100)
                    elif how == "prepend":
                        fs2[v] = L.gen_content(rng, "random", rng.choice([1, 3, 64, 200])) + d
                    elif how == "append":
                        fs2[v] = d + rng.choice([b"PAR2\0PKT", b"\0", L.gen_content(rng, "random", 70)])
                    elif how == "cutmiddle":
                        pos = rng.randrange(len(d)); fs2[v] = d[:pos] + d[pos + rng.choice([1, 4, 30]):]
                    else:
                        fs2[P.DIR + "/" + ps.base + ".zz.par2"] = b"PAR2\0PKT" + L.gen_content(rng, "random", 120)
                    vdesc += "+vol" + how
            cases.append({"set": ps, "desc": desc + "|" + vdesc, "fs": fs2, "dbl": dbl, "mode": mode,
                          "dline": (L.line_verify("p2", "mem", ps.index, g, dict(fs2, **{v_: ps.created[v_] for v_ in ps.volumes})) if "+vol" in vdesc else None),
                          "vline": L.line_verify("p2", "mem", ps.index, g, fs2),
                          "rline": L.line_repair("p2", mode, ps.index, dbl, g, fs2, dirs=L.parent_dirs(ps.paths.values()))})
    return cases


def run(ctx):
    ctx.check_props(extra_files=("Props/C16.v",))
    model = ctx.build_model()
    vh = ctx.build_harness()
    if ctx.replay:
        r = json.load(open(ctx.replay))
        lines = r["lines"]
        impl, mod = P.run_both(ctx, vh, model, lines)
        for l, i, m in zip(lines, impl, mod):
            print("impl :", i[:300]); print("model:", m[:300])
            if L.canon(i, r.get("mode", "mem")) != L.canon(m, r.get("mode", "mem")):
                ctx.violation("replay: implementation and model differ", {"lines": [l], "impl": i[:3000], "model": m[:3000], "mode": r.get("mode", "mem")})
        return ctx.finish("proof", rule="replay")
    cases = build_cases(ctx, vh, model, volume_damage=True)
    vi, vm = P.run_both(ctx, vh, model, [c["vline"] for c in cases])
    # the data side alone (all recovery files as created): how many slices are not cleanly present, whatever happened to the recovery files
    dl = [c["dline"] for c in cases if c.get("dline")]
    dres = dict(zip(dl, ctx.run_lines(vh, dl)))
    ri, rm = P.run_both(ctx, vh, model, [c["rline"] for c in cases], vmem_kb=None)
    dist = {"damage": {}, "model_repair_outcome": {}, "mode": {}, "at_capacity": 0, "beyond_capacity": 0}
    rep = [0]

    def report(msg, obj, nf=False):
        if rep[0] < 6:
            rep[0] += 1
            ctx.violation(msg, obj, no_failing_input=nf)

    for c, a, b, x, y in zip(cases, vi, vm, ri, rm):
        ps = c["set"]
        kind = c["desc"].split(":")[0]
        dist["damage"][kind] = dist["damage"].get(kind, 0) + 1
        dist["mode"][c["mode"]] = dist["mode"].get(c["mode"], 0) + 1
        pv, pm = L.parse_result(a), L.parse_result(b)
        px, py = L.parse_result(x), L.parse_result(y)
        dist["model_repair_outcome"][py["res"]] = dist["model_repair_outcome"].get(py["res"], 0) + 1
        cm = P.counts_of(pm)
        damaged = bool(P.originals_ok(ps, c["fs"]))
        ctx.count(c["rline"][:80] + L.hx(L.md5(c["rline"].encode())), damaged)
        replay = {"lines": [c["vline"], c["rline"]], "mode": c["mode"], "desc": c["desc"], "set": ps.tag,
                  "impl": [a[:1500], x[:1500]], "model": [b[:1500], y[:1500]], "class": {"damage": kind}}
        if cm:
            if cm["unusable"] == cm["pusable"] and cm["unusable"] > 0:
                dist["at_capacity"] += 1
            if cm["unusable"] > cm["pusable"]:
                dist["beyond_capacity"] += 1
        # --- the property itself, on the implementation's own output ---
        after = L.apply_changed(c["fs"], px["changed"])
        wrong = P.originals_ok(ps, after)
        if px["res"] == "ok" and wrong:
            report("Repair returned success but protected files differ from their originals: %s (%s)" % (wrong, c["desc"]), replay)
            continue
        if px["res"] in ("panic", "crash"):
            report("Repair crashed (%s): %s" % (c["desc"], px.get("raw", "")), replay)
            continue
        if px["res"] == "err:singular":
            dist["singular_outcomes"] = dist.get("singular_outcomes", 0) + 1
            if px["changed"] or px["repaired"]:
                report("Repair reports the singular system but wrote files: %s (%s)" % (sorted(px["changed"]) or px["repaired"], c["desc"]), replay)
                continue
        # capacity by the proved model's count of slices that are not cleanly present
        if cm and cm["unusable"] <= cm["pusable"] and py["res"] == "ok" and px["res"] != "ok":
            report("within recovery capacity (%d unusable slices, %d blocks) but Repair failed with %s (%s)" %
                   (cm["unusable"], cm["pusable"], px["res"], c["desc"]), replay)
            continue
        # the same with capacity counted independently of gopar and of the model: recovery blocks whose complete packet is
        # still present in some <base>.*.par2 file (damaged recovery files included) vs slices not cleanly present
        cd = P.counts_of(L.parse_result(dres[c["dline"]])) if c.get("dline") else P.counts_of(pv)
        truth = P.independent_usable(ps, c["fs"])
        if truth is not None:
            # the slices not cleanly present, counted from the original contents alone (neither gopar nor the model is consulted)
            cd = {"unusable": ps.nslices() - truth}
            dist["independent_capacity_cases"] = dist.get("independent_capacity_cases", 0) + 1
        if cd:
            blocks = P.intact_block_count(ps, c["fs"])
            dist["volume_damage"] = dist.get("volume_damage", 0) + ("+vol" in c["desc"])
            if cd["unusable"] <= blocks and px["res"] not in ("ok", "err:singular"):
                report("%d slices are not cleanly present and %d recovery blocks are intact beside the index, but Repair failed with %s (%s)" %
                       (cd["unusable"], blocks, px["res"], c["desc"]), replay)
                continue
        # --- correspondence ---
        if L.canon(a, "mem") != L.canon(b, "mem"):
            report("Verify differs from the proved model (%s): impl=%s model=%s" % (c["desc"], a[:100], b[:100]), replay, nf=True)
        elif L.canon(x, c["mode"]) != L.canon(y, c["mode"]):
            report("Repair differs from the proved model (%s): impl=%s model=%s" % (c["desc"], x[:100], y[:100]), replay, nf=True)
        if damaged and len(ctx.samples) < 5 and kind in ("swap", "insert", "delete"):
            ctx.sample({"set": {n: len(d) for n, d in ps.files.items()}, "slice": ps.slice, "blocks": ps.nparity,
                        "damage": c["desc"], "verify": a.split(" trace=")[0], "repair": x.split(" trace=")[0]})
    return ctx.finish(
        "proof",
        rule="random file sets (1-5 files, sizes around the slice size, >16 KiB files with 2000/4096-byte slices, a >256-slice set, duplicate-slice and zero content; slice 4/8/12/64; 1-8 blocks; goroutines 1/2/3/7) x damage (delete, overwrite, bit flip, insert, cut, truncate, append, strip trailing zeros, empty, swap, move-over, pairs of these) x random subset of recovery files dropped x double-check on/off x in-memory or real file system; non-trivial = at least one protected file differs from its original",
        extra={"input_distribution": dist,
               "predicate": "Repair ok => every protected file byte-identical to its original; unusable slices (by the proved scan) <= surviving blocks and model ok => Repair ok; never a crash",
               "compared": "Verify counts and Repair outcome class, repaired paths, I/O trace and changed files vs the extracted model"})
