"""C19 — well-checksummed but inconsistent archives are rejected without crashing."""
import json
import struct
from . import p2lib as L
from . import par2common as P
from . import par2writer as W
from . import robust as R

U64 = [0, 1, (1 << 31), (1 << 32) - 1, (1 << 63) - 1, 1 << 63, (1 << 64) - 1]


def grid(rng, thorough):
    S = 8
    files = [("a.dat", L.gen_content(rng, "random", 20)), ("sub/b.dat", L.gen_content(rng, "random", 9)), ("c", L.gen_content(rng, "random", 8))]
    exps = [0, 1, 2]
    out = []          # (desc, archive files dict)

    def add(desc, ms, **kw):
        try:
            out.append((desc, R.archive(ms, kw.pop("exps", exps), **kw)))
        except Exception as e:          # a writer-side impossibility (e.g. negative sizes) is not a case
            pass

    base = R.MutSet(files, S)
    add("baseline", base)
    # --- main packet ---
    for v in [0, 1, 3, 4, S - 4, S - 1, S + 1, S + 4, 2 * S, (1 << 31), (1 << 40), (1 << 40) + 4, (1 << 63) - 4, 1 << 63, (1 << 64) - 4, (1 << 64) - 1]:
        add("main.slice=%d" % v, R.MutSet(files, S, main={"slice": v}))
    # the same slice sizes with checksum lists made consistent (one slice per file), so that only the size itself is odd
    one = {n: {"pairs_delta": -(((len(d) + S - 1) // S) - 1)} for n, d in files if (len(d) + S - 1) // S > 1}
    for v in [24, 1 << 20, (1 << 31), (1 << 40), (1 << 40) + 4, (1 << 47), (1 << 62), (1 << 63) - 4]:
        add("main.slice-consistent=%d" % v, R.MutSet(files, S, main={"slice": v}, decl=one))
    for v in [0, 1, 2, 4, 5, 1 << 31, (1 << 32) - 1]:
        add("main.count=%d" % v, R.MutSet(files, S, main={"count": v}))
    add("main.ids-unsorted", R.MutSet(files, S, main={"ids": lambda ids: [ids[1], ids[0]] + ids[2:]}))
    add("main.ids-duplicate", R.MutSet(files, S, main={"ids": lambda ids: [ids[0], ids[0]] + ids[2:]}))
    add("main.ids-unknown", R.MutSet(files, S, main={"ids": lambda ids: ids[:2] + [bytes([255] * 16)]}))
    add("main.extra-nonrecovery-id", R.MutSet(files, S, main={"extra_ids": [bytes([254] * 16)]}))
    for t in (0, 4, 8, 12, 20, 28):
        add("main.truncated=%d" % t, R.MutSet(files, S, main={"truncate": t}))
    # --- file description ---
    for name in ("a.dat", "c"):
        n = len(dict(files)[name])
        for v in sorted(set(U64 + [n - 1, n + 1, S, S + 1, 2 * S, 2 * S + 1, 3 * S, 3 * S + 1, n + S, 5 * S])):
            add("fdesc[%s].len=%d" % (name, v), R.MutSet(files, S, decl={name: {"len": v}}))
        add("fdesc[%s].hash-wrong" % name, R.MutSet(files, S, decl={name: {"hash": bytes(16)}}))
        add("fdesc[%s].h16-wrong" % name, R.MutSet(files, S, decl={name: {"h16": bytes([7] * 16)}}))
        for nm in ("", ".", "..", "x/../../y", "/abs", "n\xe9", "a\0b", "a.dat", "dir/"):
            add("fdesc[%s].name=%r" % (name, nm), R.MutSet(files, S, decl={name: {"name": nm}}))
        # --- slice checksums ---
        for d in (-1, 1, 2, -100):
            add("ifsc[%s].pairs%+d" % (name, d), R.MutSet(files, S, decl={name: {"pairs_delta": d}}))
        # consistent length + checksum list, inconsistent with the real file
        add("fdesc+ifsc[%s] one slice more" % name, R.MutSet(files, S, decl={name: {"len": n + S, "pairs_delta": 1}}))
        add("fdesc+ifsc[%s] length one short" % name, R.MutSet(files, S, decl={name: {"len": n - 1}}))
        add("ifsc[%s].crc-wrong" % name, R.MutSet(files, S, decl={name: {"pairs": [(W.md5(b"q"), 1)] * ((n + S - 1) // S)}}))
    # --- recovery packets ---
    for e in [0, 1, 2, 3, 4, 255, 256, 65534, 65535, 65536, 1 << 31, (1 << 32) - 1]:
        add("recv.exp=%d" % e, base, recv_override={0: (e, base.recv_block(0))})
    for ln in (0, 4, S - 4, S + 4, 2 * S):
        add("recv.len=%d" % ln, base, recv_override={1: (1, L.gen_content(rng, "random", ln))})
    add("recv.body-empty", base, extra_recv=[W.packet(base.setid, W.T_RECV, b"")])           # not even the exponent
    add("recv.body-exponent-only", base, extra_recv=[W.packet(base.setid, W.T_RECV, struct.pack("<I", 9))])
    add("recv.duplicate-identical", base, extra_recv=[base.p_recv(1)])
    add("recv.duplicate-different", base, extra_recv=[W.packet(base.setid, W.T_RECV, struct.pack("<I", 1) + L.gen_content(rng, "random", S))])
    add("recv.wrong-data", base, recv_override={0: (0, L.gen_content(rng, "random", S)), 1: (1, L.gen_content(rng, "random", S))})
    add("recv.in-index", base, exps=[])
    out[-1][1][P.DIR + "/arc.par2"] += base.p_recv(0)
    # --- removal / duplication of every packet type ---
    for kind in ("creator", "main", "fdesc", "ifsc"):
        add("index.drop-" + kind, base, index_drop=(kind,))
        add("volume.drop-" + kind, base, vol_drop=(kind,))
        add("index.dup-" + kind, base, index_dup=(kind,))
        add("volume.dup-" + kind, base, vol_dup=(kind,))
    add("volume.only-recovery-packets", base, vol_drop=("creator", "main", "fdesc", "ifsc"))
    # a recovery file may legally omit the main packet (and everything else but its recovery packets): the size of its
    # blocks must then still be checked against the INDEX's slice size
    for vd in (("main",), ("creator", "main", "fdesc", "ifsc")):
        for ln in (0, 4, S - 4, S + 4, 2 * S):
            add("volume.drop-%s+recv.len=%d" % ("+".join(vd), ln), base, vol_drop=vd, recv_override={1: (1, L.gen_content(rng, "random", ln))})
    # --- pairs of mutations (thorough) ---
    if thorough:
        singles = [("main", {"slice": v}) for v in (4, S + 4, 1 << 63)] + [("main", {"count": v}) for v in (1, 4)]
        decls = [{"a.dat": {"len": v}} for v in (1, 19, 21, 1 << 63)] + [{"c": {"pairs_delta": d}} for d in (-1, 1)]
        for (_, m) in singles:
            for d in decls:
                add("pair:%s+%s" % (m, d), R.MutSet(files, S, decl=d, main=m))
        for d in decls:
            for e in (3, 65535, 65536):
                ms = R.MutSet(files, S, decl=d)
                add("pair:%s+recv.exp=%d" % (d, e), ms, recv_override={0: (e, ms.recv_block(0))})
    return files, S, out


def run(ctx):
    ctx.check_props()
    model = ctx.build_model()
    vh = ctx.build_harness()
    if ctx.replay:
        r = json.load(open(ctx.replay))
        impl, mod = P.run_both(ctx, vh, model, r["lines"], vmem_kb=6 << 20)
        for l, i, m in zip(r["lines"], impl, mod):
            print("impl :", i[:300]); print("model:", m[:300])
            if L.canon(i, "mem") != L.canon(m, "mem"):
                ctx.violation("replay: implementation and model differ", {"lines": [l]})
        return ctx.finish("proof", rule="replay")
    rng = ctx.rng
    thorough = ctx.tier == "thorough"
    rep = [0]

    def report(msg, obj, nf=False):
        if rep[0] < 8:
            rep[0] += 1
            ctx.violation(msg, obj, no_failing_input=nf)

    files, S, muts = grid(rng, thorough)
    ps = P.PSet(dict(files), S, 3, tag="c19 set")
    ps.index = P.DIR + "/arc.par2"
    data = {ps.paths[n]: d for n, d in ps.files.items()}
    cases = []
    for desc, arc in muts:
        huge_slice = desc.startswith("main.slice") and (1 << 22) < int(desc.split("=")[1]) <= (1 << 40)
        # exponents above a few thousand: the extracted model builds the whole (max exponent+1) x slices matrix through
        # list-based tables and is far too slow; those cases run on the implementation only (predicates, no comparison)
        implonly = (desc.startswith("main.slice") and int(desc.split("=")[1]) > 65536 and int(desc.split("=")[1]) <= (1 << 40)) or desc.startswith("recv.exp=") and 4000 < int(desc.split("=")[1]) <= 65535 or "recv.exp=65535" in desc or "recv.exp=3}" in desc and False
        for dstate in ("intact", "missing", "flipped", "allmissing"):
            fs = dict(data) if dstate != "allmissing" else {}
            if dstate == "missing":
                fs.pop(ps.paths["a.dat"])
            elif dstate == "flipped":
                d = fs[ps.paths["c"]]
                fs[ps.paths["c"]] = bytes([d[0] ^ 0x80]) + d[1:]
            if huge_slice and dstate != "allmissing":
                continue      # an accepted slice size above 64 MiB makes the scan allocate in proportion to it (allowed by the property)
            fs.update(arc)
            cases.append({"desc": desc + "|" + dstate, "fs": fs, "implonly": implonly,
                          "vline": L.line_verify("p2", "mem", ps.index, 1, fs),
                          "rline": L.line_repair("p2", "mem", ps.index, dstate == "flipped", 1, fs)})
    # the finding recorded in known_findings.json: the coder is sized by the HIGHEST exponent present
    big = R.MutSet([("many.bin", L.gen_content(rng, "random", 8 * 2000))], S)
    bigexp = 40000
    arc = R.archive(big, [0], recv_override={0: (bigexp, big.recv_block(bigexp))})
    bfs = {P.DIR + "/many.bin": bytes([big.files[0]["data"][0] ^ 1]) + big.files[0]["data"][1:]}
    bfs.update(arc)
    cases.append({"desc": "alloc:2000 slices, one block numbered %d|one slice damaged" % bigexp, "fs": bfs, "implonly": True,
                  "alloc_class": "coder-sized-by-highest-exponent",
                  "vline": L.line_verify("p2", "mem", ps.index, 1, bfs), "rline": L.line_repair("p2", "mem", ps.index, False, 1, bfs)})
    # one file id listed n times in the main packet (ids need only be sorted non-strictly): n x k shard slots for an index of 16n + 20k bytes
    ndup = 3000
    dupset = R.MutSet([("many.bin", L.gen_content(rng, "random", 4 * 3000))], 4, main={"ids": lambda ids: [ids[0]] * ndup, "count": ndup})
    darc = R.archive(dupset, [0])
    dfs = {P.DIR + "/many.bin": dupset.files[0]["data"]}
    dfs.update(darc)
    cases.append({"desc": "alloc:one file id listed %d times, 3000 slices|intact" % ndup, "fs": dfs, "implonly": True,
                  "alloc_class": "duplicate-file-ids",
                  "vline": L.line_verify("p2", "mem", dupset.index if hasattr(dupset, "index") else ps.index, 1, dfs),
                  "rline": L.line_repair("p2", "mem", dupset.index if hasattr(dupset, "index") else ps.index, False, 1, dfs)})
    import os
    aenv = dict(os.environ, VH_ALLOC="1")
    vi = ctx.run_lines(vh, [c["vline"] for c in cases], vmem_kb=6 << 20, timeout=3000, env=aenv)
    ri = ctx.run_lines(vh, [c["rline"] for c in cases], vmem_kb=6 << 20, timeout=3000, env=aenv)
    mc = [c for c in cases if not c["implonly"]]
    mv = dict(zip([c["vline"] for c in mc], ctx.run_lines(model, [c["vline"] for c in mc], timeout=3000)))
    mr = dict(zip([c["rline"] for c in mc], ctx.run_lines(model, [c["rline"] for c in mc], timeout=3000)))
    vm = [mv.get(c["vline"]) for c in cases]
    rm = [mr.get(c["rline"]) for c in cases]
    dist = {"field": {}, "verify_outcome": {}, "repair_outcome": {}, "accepted_mutations": 0}
    for c, a, b, x, y in zip(cases, vi, vm, ri, rm):
        field = c["desc"].split("=")[0].split("|")[0]
        dist["field"][field] = dist["field"].get(field, 0) + 1
        pa, px = L.parse_result(a), L.parse_result(x)
        dist["verify_outcome"][pa["res"]] = dist["verify_outcome"].get(pa["res"], 0) + 1
        dist["repair_outcome"][px["res"]] = dist["repair_outcome"].get(px["res"], 0) + 1
        dist["accepted_mutations"] += pa["res"] == "ok" and not c["desc"].startswith("baseline")
        ctx.count(c["desc"], not c["desc"].startswith("baseline"))
        b = b or ""; y = y or ""
        replay = {"lines": [c["vline"], c["rline"]], "desc": c["desc"], "impl": [a[:1000], x[:1000]], "model": [b[:1000], y[:1000]],
                  "class": {"field": field}}
        # memory in proportion to the files present and the declared slice size
        fsbytes = sum(len(d) for d in c["fs"].values())
        bound = (64 << 20) + 256 * fsbytes
        worst = max(pa.get("alloc") or 0, px.get("alloc") or 0)
        dist["max_alloc_bytes"] = max(dist.get("max_alloc_bytes", 0), worst if "alloc_class" not in c else 0)
        if worst > bound:
            replay2 = dict(replay, **{"class": {"kind": c.get("alloc_class", "alloc")}, "alloc_bytes": worst, "bound": bound})
            report("allocated %d bytes for %d bytes of files (bound 64 MiB + 256 x file bytes = %d) (%s)" % (worst, fsbytes, bound, c["desc"]), replay2)
            continue
        if pa["res"] in ("panic", "crash"):
            report("Verify crashed on a well-checksummed inconsistent archive (%s): %s" % (c["desc"], pa.get("raw", a[:120])), replay); continue
        if px["res"] in ("panic", "crash"):
            report("Repair crashed on a well-checksummed inconsistent archive (%s): %s" % (c["desc"], px.get("raw", x[:120])), replay); continue
        # never write data that fails the archive's own hashes / never touch anything but protected paths with originals
        bad = R.truthful_violation(ps, c["fs"], pa, px) if not any(k in c["desc"] for k in ("fdesc[", "ifsc[", "main.")) else None
        if bad is None:
            for p, d in px["changed"].items():
                if p in data and d != data[p] and "fdesc[" not in c["desc"]:
                    bad = "Repair wrote bytes that are not the protected content: %s" % p
                if not p.startswith(P.DIR + "/") or p.endswith(".par2") or p.endswith("unrelated.txt"):
                    bad = "Repair wrote a path that is not a declared data file below the set directory: %s" % p
                if d not in data.values():
                    bad = "Repair wrote bytes that are not the content of any protected file: %s" % p
        if bad:
            report("%s (%s)" % (bad, c["desc"]), replay); continue
        if c["implonly"]:
            dist["implementation_only"] = dist.get("implementation_only", 0) + 1
            continue
        if L.canon(a, "mem") != L.canon(b, "mem"):
            report("Verify differs from the model (%s): impl=%s model=%s" % (c["desc"], a.split(" trace=")[0], b.split(" trace=")[0]), replay, nf=True)
        elif L.canon(x, "mem") != L.canon(y, "mem"):
            report("Repair differs from the model (%s): impl=%s model=%s" % (c["desc"], x.split(" trace=")[0], y.split(" trace=")[0]), replay, nf=True)
        if len(ctx.samples) < 6 and pa["res"] == "ok" and not c["desc"].startswith("baseline") and not c["implonly"]:
            ctx.sample({"mutation": c["desc"], "verify": a.split(" trace=")[0], "repair": x.split(" trace=")[0]})
    extra = {"input_distribution": dist}
    try:
        from . import par1common
        par1common.c19_part(ctx, vh, model, report, extra)
    except ImportError:
        extra["par1"] = "PAR1 grid not built yet"
    return ctx.finish(
        "proof",
        rule="enumerated grid of PAR2 sets produced by the independent writer with declared fields overridden BEFORE ids, set id and packet hashes are computed (so every packet is well-checksummed): main slice size and recovery count at boundary values (0,1,field+-1/+-4,2^31,2^40(+4),2^63(-4),2^64-1), unsorted/duplicate/unknown/extra ids, truncated main body; file description length at boundary values and slice multiples, wrong hashes, hostile names; checksum list shorter/longer, wrong CRCs; recovery exponent 0..65536, 2^31, 2^32-1, wrong block sizes, duplicate identical/different, wrong data, recovery packet in the index; removal and duplication of every packet type in index and volume; wrong block sizes in a volume without main packet / with recovery packets only; (thorough: pairs) x data files intact / one missing / one damaged / all missing; Verify and Repair in a child with a 6 GiB address-space limit",
        exhaustive=True,
        extra=dict(extra, predicate="no panic/crash; counts truthful; nothing but protected paths written, and only with the protected content",
                   compared="outcome class, counts, repaired list, I/O trace, changed files vs the extracted model"))
