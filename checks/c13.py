"""C13 — corruption, truncation and interrupted writes never crash or mislead (PAR2 grid; PAR1 grid in par1common)."""
import json
from . import p2lib as L
from . import par2common as P
from . import robust as R


def run(ctx):
    ctx.check_props()
    model = ctx.build_model()
    vh = ctx.build_harness()
    if ctx.replay:
        r = json.load(open(ctx.replay))
        impl, mod = P.run_both(ctx, vh, model, r["lines"], vmem_kb=4 << 20)
        for l, i, m in zip(r["lines"], impl, mod):
            print("impl :", i[:300]); print("model:", m[:300])
            if L.canon(i, "mem") != L.canon(m, "mem"):
                ctx.violation("replay: implementation and model differ", {"lines": [l]})
        return ctx.finish("proof", rule="replay")
    rng = ctx.rng
    thorough = ctx.tier == "thorough"
    rep = [0]

    def report(msg, obj, nf=False):
        if rep[0] < 8:
            rep[0] += 1
            ctx.violation(msg, obj, no_failing_input=nf)

    ps = R.small_set(rng)
    big = P.PSet({"x.bin": L.gen_content(rng, "random", 50), "y.bin": L.gen_content(rng, "lowent", 33)}, 8, 5, g=2, tag="c13 set 2")
    P.create_all(ctx, vh, model, [ps, big])
    cases = []
    for s in (ps, big):
        if s.created is None:
            report("Create failed", {"class": {"op": "create"}}, nf=True)
            continue
        muts = R.c13_mutations(rng, s, thorough)
        if s is big and not thorough:
            muts = [m for m in muts if not m[0].startswith("truncate") or rng.random() < 0.15]
            muts = [m for m in muts if not m[0].startswith("flip:") or rng.random() < 0.15]
        # two data states: intact, and one protected file missing (so that Repair really needs the recovery files)
        victim = list(s.paths.values())[0]
        for desc, mut in muts:
            for dstate in ("intact", "onemissing"):
                if dstate == "onemissing" and rng.random() < 0.5 and not thorough:
                    continue
                fs = R.apply_mut(s.created, mut)
                if dstate == "onemissing":
                    fs.pop(victim, None)
                cases.append({"set": s, "desc": desc + "|" + dstate, "fs": fs,
                              "vline": L.line_verify("p2", "mem", s.index, 1, fs),
                              "rline": L.line_repair("p2", "mem", s.index, rng.random() < 0.3, 1, fs)})
    # damage to the PROTECTED files with the archive files intact: "slices reported usable really are intact" must hold
    # for damage that a checksum alone cannot see - a slice xor-ed with a multiple of the CRC-32 polynomial keeps its
    # CRC-32 (only the MD5 tells) - at every slice of every file of the second set
    for s in (ps, big):
        if s.created is None or s.slice < 8:
            continue
        for n in s.files:
            d0 = s.created[s.paths[n]]
            for k0 in range(0, max(len(d0) - 7, 0), s.slice):
                off = k0 + rng.randrange(0, min(s.slice, len(d0) - k0) - 4) if min(s.slice, len(d0) - k0) > 4 else None
                if off is None:
                    continue
                nd = bytearray(d0)
                for i, x in enumerate(b"\x41\x06\x71\xdb\x01"):     # x^32+x^26+...+1, bit-reflected: crc32 unchanged
                    nd[off + i] ^= x
                import zlib
                assert zlib.crc32(bytes(nd[k0:k0 + s.slice])) == zlib.crc32(d0[k0:k0 + s.slice])
                fs = dict(s.created); fs[s.paths[n]] = bytes(nd)
                cases.append({"set": s, "desc": "data-crc-preserving:%s@%d|archive intact" % (n, off), "fs": fs,
                              "vline": L.line_verify("p2", "mem", s.index, 1, fs),
                              "rline": L.line_repair("p2", "mem", s.index, rng.random() < 0.3, 1, fs)})
    # ... and damage that changes a protected file's LENGTH while every slice stays findable in place: garbage appended,
    # a zero byte appended inside the last slice's padding, trailing zero bytes lost
    for s in (ps, big):
        if s.created is None:
            continue
        for n in s.files:
            d0 = s.created[s.paths[n]]
            alts = [("data-append-garbage", d0 + b"\x07garbage")]
            if len(d0) % s.slice:
                alts.append(("data-zero-appended", d0 + b"\0"))
            if d0.endswith(b"\0") and d0.rstrip(b"\0"):
                alts.append(("data-trailing-zeros-lost", d0.rstrip(b"\0")))
            for kind_, nd in alts:
                fs = dict(s.created); fs[s.paths[n]] = nd
                cases.append({"set": s, "desc": "%s:%s|archive intact" % (kind_, n), "fs": fs,
                              "vline": L.line_verify("p2", "mem", s.index, 1, fs),
                              "rline": L.line_repair("p2", "mem", s.index, rng.random() < 0.3, 1, fs)})
    import os
    aenv = dict(os.environ, VH_ALLOC="1")
    vi = ctx.run_lines(vh, [c["vline"] for c in cases], vmem_kb=4 << 20, timeout=3000, env=aenv)
    ri = ctx.run_lines(vh, [c["rline"] for c in cases], vmem_kb=4 << 20, timeout=3000, env=aenv)
    vm = ctx.run_lines(model, [c["vline"] for c in cases], timeout=3000)
    rm = ctx.run_lines(model, [c["rline"] for c in cases], timeout=3000)
    dist = {"kind": {}, "verify_outcome": {}, "repair_outcome": {}}
    for c, a, b, x, y in zip(cases, vi, vm, ri, rm):
        kind = c["desc"].split(":")[0]
        dist["kind"][kind] = dist["kind"].get(kind, 0) + 1
        pa, px = L.parse_result(a), L.parse_result(x)
        dist["verify_outcome"][pa["res"]] = dist["verify_outcome"].get(pa["res"], 0) + 1
        dist["repair_outcome"][px["res"]] = dist["repair_outcome"].get(px["res"], 0) + 1
        ctx.count(c["desc"] + "|" + c["set"].tag, kind not in ("delete",))
        replay = {"lines": [c["vline"], c["rline"]], "desc": c["desc"], "set": c["set"].tag,
                  "impl": [a[:1000], x[:1000]], "model": [b[:1000], y[:1000]], "class": {"kind": kind}}
        worst = max(pa.get("alloc") or 0, px.get("alloc") or 0)
        dist["max_alloc_bytes"] = max(dist.get("max_alloc_bytes", 0), worst)
        if worst > (64 << 20) + 256 * sum(len(d) for d in c["fs"].values()):
            report("allocated %d bytes on a damaged archive of %d bytes (%s)" % (worst, sum(len(d) for d in c["fs"].values()), c["desc"]), replay); continue
        if pa["res"] in ("panic", "crash"):
            report("Verify crashed on a damaged archive (%s): %s" % (c["desc"], pa.get("raw", a[:100])), replay); continue
        if px["res"] in ("panic", "crash"):
            report("Repair crashed on a damaged archive (%s): %s" % (c["desc"], px.get("raw", x[:100])), replay); continue
        bad = R.truthful_violation(c["set"], c["fs"], pa, px)
        if bad:
            report("%s (%s)" % (bad, c["desc"]), replay); continue
        if L.canon(a, "mem") != L.canon(b, "mem"):
            report("Verify differs from the model (%s): impl=%s model=%s" % (c["desc"], a.split(" trace=")[0], b.split(" trace=")[0]), replay, nf=True)
        elif L.canon(x, "mem") != L.canon(y, "mem"):
            report("Repair differs from the model (%s): impl=%s model=%s" % (c["desc"], x.split(" trace=")[0], y.split(" trace=")[0]), replay, nf=True)
        if len(ctx.samples) < 5 and kind in ("interrupted-create", "flip") and pa["res"] == "ok":
            ctx.sample({"mutation": c["desc"], "verify": a.split(" trace=")[0], "repair": x.split(" trace=")[0]})
    extra = {"input_distribution": dist}
    try:
        from . import par1common
        par1common.c13_part(ctx, vh, model, report, extra)
    except ImportError:
        extra["par1"] = "PAR1 grid not built yet"
    return ctx.finish(
        "proof",
        rule="enumerated grid over every file of two created PAR2 sets: truncation at every packet boundary, at every byte of every packet header (every byte of the index file) and sampled payload offsets; every bit of the magic and length fields and two bits per byte of the other header fields of the first packet of each type (thorough: all), sampled payload bits; emptied; garbage (with and without a valid magic); appended garbage; deleted; every subset of deleted archive files; every prefix of Create's write sequence with the last file torn at and inside packet boundaries; each with the data files intact and with one protected file missing; plus, with the archive intact, every slice of every protected file corrupted so that its CRC-32 is unchanged; Verify and Repair (30% with double-check) in a child with a 4 GiB address-space limit; non-trivial = the archive file still exists",
        exhaustive=True,
        extra=dict(extra, predicate="no panic/crash; usable slices <= slices present; clean => intact; Repair changes only protected files and only to their originals; success => all originals",
                   compared="outcome class, counts, repaired list, I/O trace, changed files vs the extracted model"))
