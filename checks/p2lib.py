"""Scenario helpers for the PAR2/PAR1 file-system operations protocol (harness/fsops.go, ocaml/driver.ml)."""
import binascii
import hashlib


def hx(b):
    if isinstance(b, str):
        b = b.encode("latin-1")
    return binascii.hexlify(b).decode() if b else "-"


def unhx(s):
    return b"" if s == "-" else binascii.unhexlify(s)


def fs_tokens(fs, sched=(), dirs=()):
    """fs: dict/list of (path str|bytes -> bytes); sched: list of (callindex, 'n' | 'tK');
    dirs: directories that must exist (real mode), passed as entries whose path ends in '/'."""
    items = list(fs.items()) if isinstance(fs, dict) else list(fs)
    items = [(d.rstrip("/") + "/", b"") for d in dirs] + items
    t = [str(len(items))]
    for p, d in items:
        t += [hx(p), hx(d)]
    t.append(str(len(sched)))
    for i, k in sched:
        t.append("%d:%s" % (i, k))
    return t


def line_create(prefix, mode, par, slice_, nparity, g, files, fs, sched=()):
    return " ".join([prefix, "create", mode, hx(par), str(slice_), str(nparity), str(g), str(len(files))]
                    + [hx(f) for f in files] + fs_tokens(fs, sched))


def line_verify(prefix, mode, index, g, fs, sched=(), dirs=()):
    return " ".join([prefix, "verify", mode, hx(index), str(g)] + fs_tokens(fs, sched, dirs))


def line_repair(prefix, mode, index, dbl, g, fs, sched=(), dirs=()):
    return " ".join([prefix, "repair", mode, hx(index), "1" if dbl else "0", str(g)] + fs_tokens(fs, sched, dirs))


def parent_dirs(paths):
    out = []
    for p in paths:
        d = p.rsplit("/", 1)[0]
        if d and d not in out:
            out.append(d)
    return out


def parse_result(s):
    """'<res> counts=.. repaired=.. trace=.. changed=..' -> dict (None when the process crashed)."""
    if s is None or not (s.startswith("ok") or s.startswith("err") or s.startswith("panic")):
        return {"res": "crash", "raw": (s or "")[:300], "counts": None, "repaired": [], "trace": [], "changed": {}}
    parts = s.split(" ")
    r = {"res": parts[0], "counts": None, "repaired": [], "trace": [], "changed": {}, "alloc": None}
    for p in parts[1:]:
        k, _, v = p.partition("=")
        if k == "counts":
            r["counts"] = None if v in ("-", "") else v.split(",")
        elif k == "repaired":
            r["repaired"] = [unhx(x).decode("latin-1") for x in v.split(",")] if v else []
        elif k == "trace":
            r["trace"] = v.split(",") if v else []
        elif k == "alloc":
            r["alloc"] = int(v)
        elif k == "changed":
            ch = {}
            if v:
                for e in v.split(","):
                    pth, _, dat = e.partition(":")
                    ch[unhx(pth).decode("latin-1")] = None if dat == "DELETED" else unhx(dat)
            r["changed"] = ch
    return r


def apply_changed(fs, changed):
    out = dict(fs)
    for p, d in changed.items():
        if d is None:
            out.pop(p, None)
        else:
            out[p] = d
    return out


def canon(s, mode):
    """Canonical form used for model-vs-implementation comparison."""
    if s is None:
        return "crash"
    if s.startswith("panic"):
        return "panic"
    if " alloc=" in s:
        s = s[:s.rindex(" alloc=")]
    if mode == "real":
        s = s.replace("err:io", "err:other")
    return s


# ---------- content generators ----------
def gen_content(rng, kind, n, slice_=4):
    if kind == "random":
        return bytes(rng.randrange(256) for _ in range(n))
    if kind == "lowent":
        return bytes(rng.choice((0, 1)) for _ in range(n))
    if kind == "dupslices":           # a few distinct slices repeated
        pool = [bytes(rng.randrange(256) for _ in range(slice_)) for _ in range(2)]
        out = b""
        while len(out) < n:
            out += rng.choice(pool)
        return out[:n]
    if kind == "zerotail":            # ends in zero bytes (padding ambiguity)
        k = min(n - 1, max(1, n // 3)) if n > 1 else 0
        return bytes(rng.randrange(1, 256) for _ in range(n - k)) + bytes(k)
    if kind == "zeros":
        return bytes(n)
    raise ValueError(kind)


CONTENT_KINDS = ["random", "random", "lowent", "dupslices", "zerotail"]


def md5(b):
    return hashlib.md5(b).digest()
