#!/bin/sh
# Build the verification framework from files on disk only (offline).
set -e
cd "$(dirname "$0")"
export GOFLAGS=-mod=mod GOPROXY=off GOSUMDB=off GOTOOLCHAIN=local
( cd coq && coq_makefile -f _CoqProject -o Makefile >/dev/null && timeout 3000 make -j"$(nproc)" )
( cd ocaml && timeout 1200 coqc -Q ../coq Gopar ../coq/Extract/Extract.v >/dev/null \
  && ocamlfind ocamlopt -O3 -w -a -package unix -linkpkg model.mli model.ml driver.ml -o model 2>/dev/null )
echo setup-ok
