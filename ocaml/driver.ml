(* Driver for the extracted model: reads one command per line on stdin, writes
   one result line per command.  Numbers are decimal, 64-bit polynomials and
   byte strings are hex.  The same command files are fed to the Go harness. *)
open Model

(* ---- conversions between OCaml ints / hex strings and the extracted numbers ---- *)
let rec pos_of_int (n : int) : positive =
  if n = 1 then XH
  else if n land 1 = 0 then XO (pos_of_int (n lsr 1))
  else XI (pos_of_int (n lsr 1))
let n_of_int (n : int) : n = if n = 0 then N0 else Npos (pos_of_int n)
let rec int_of_pos (p : positive) : int =
  match p with XH -> 1 | XO q -> 2 * int_of_pos q | XI q -> 2 * int_of_pos q + 1
let int_of_n (x : n) : int = match x with N0 -> 0 | Npos p -> int_of_pos p

(* hex (big-endian digits, arbitrary length) <-> N *)
let n_of_hex (s : string) : n =
  let acc = ref N0 in
  String.iter (fun c ->
    let d = match c with
      | '0'..'9' -> Char.code c - 48
      | 'a'..'f' -> Char.code c - 87
      | 'A'..'F' -> Char.code c - 55
      | _ -> failwith "bad hex" in
    let shl4 x = N.double (N.double (N.double (N.double x))) in
    acc := N.add (shl4 !acc) (n_of_int d)) s;
  !acc
let hex_of_n (x : n) : string =
  let rec bits p acc = match p with
    | XH -> 1 :: acc | XO q -> bits q (0 :: acc) | XI q -> bits q (1 :: acc) in
  (* bits returns most-significant first *)
  match x with
  | N0 -> "0"
  | Npos p ->
    let bl = bits p [] in
    let n = List.length bl in
    let pad = (4 - n mod 4) mod 4 in
    let bl = List.init pad (fun _ -> 0) @ bl in
    let buf = Buffer.create 16 in
    let rec go = function
      | a :: b :: c :: d :: r ->
        Buffer.add_char buf "0123456789abcdef".[a*8 + b*4 + c*2 + d]; go r
      | [] -> ()
      | _ -> assert false in
    go bl; Buffer.contents buf

let bytes_of_hex (s : string) : n list =
  let n = String.length s / 2 in
  List.init n (fun i -> n_of_int (int_of_string ("0x" ^ String.sub s (2*i) 2)))
let hex_of_bytes (l : n list) : string =
  let buf = Buffer.create (2 * List.length l) in
  List.iter (fun b -> Buffer.add_string buf (Printf.sprintf "%02x" (int_of_n b))) l;
  Buffer.contents buf

(* position-sensitive digest computed identically in the Go harness *)
let dg_step h v = (h * 31 + v + 1) mod 2147483647

let show_outcome_n = function
  | Ok v -> string_of_int (int_of_n v)
  | Err _ -> "err"
  | Panic _ -> "panic"

(* ---- C08 ---- *)
let c08 (w : string list) : string =
  match w with
  | ["times"; a; b] ->
    let a = n_of_int (int_of_string a) and b = n_of_int (int_of_string b) in
    Printf.sprintf "%d %d" (int_of_n (t_Times a b)) (int_of_n (fmul a b))
  | ["times_row"; a] ->
    let a = n_of_int (int_of_string a) in
    let h1 = ref 0 and h2 = ref 0 in
    for b = 0 to 65535 do
      let bn = n_of_int b in
      h1 := dg_step !h1 (int_of_n (t_Times a bn));
      h2 := dg_step !h2 (int_of_n (hmul a bn))
    done;
    Printf.sprintf "%d %d" !h1 !h2
  | ["div"; a; b] ->
    let a = n_of_int (int_of_string a) and b = n_of_int (int_of_string b) in
    let spec = match t_Inverse b with Ok i -> string_of_int (int_of_n (fmul a i)) | _ -> "panic" in
    Printf.sprintf "%s %s" (show_outcome_n (t_Div a b)) spec
  | ["div_row"; b] ->
    (* row over the dividend a = 0..65535 for a fixed divisor b *)
    let b = n_of_int (int_of_string b) in
    (match t_Inverse b with
     | Ok i ->
       let h1 = ref 0 and h2 = ref 0 in
       for a = 0 to 65535 do
         let an = n_of_int a in
         (match t_Div an b with
          | Ok v -> h1 := dg_step !h1 (int_of_n v)
          | _ -> h1 := dg_step !h1 70000);
         h2 := dg_step !h2 (int_of_n (hmul an i))
       done;
       Printf.sprintf "%d %d" !h1 !h2
     | _ -> "panic panic")
  | ["inv"; a] ->
    let a = n_of_int (int_of_string a) in
    (match t_Inverse a with
     | Ok i -> Printf.sprintf "%d %d" (int_of_n i) (int_of_n (fmul a i))
     | _ -> "panic panic")
  | ["pow"; a; p] ->
    let a = n_of_int (int_of_string a) and p = n_of_int (int_of_string p) in
    Printf.sprintf "%d %d" (int_of_n (t_Pow a p)) (int_of_n (qpow a p))
  | ["ptimes"; p; q] ->
    let p = n_of_hex p and q = n_of_hex q in
    Printf.sprintf "%s %s" (hex_of_n (poly64_Times p q)) (hex_of_n (poly64_Times_spec p q))
  | ["pdiv"; p; d] ->
    let p = n_of_hex p and d = n_of_hex d in
    (match poly64_Div p d with
     | Ok (q, r) ->
       (* spec check: q*d + r = p and deg r < deg d *)
       Printf.sprintf "%s %s %s" (hex_of_n q) (hex_of_n r)
         (if poly64_Div_check p d q r then "specok" else "SPECFAIL")
     | _ -> "panic")
  | _ -> failwith ("c08: bad command: " ^ String.concat " " w)

(* ---- C09 ---- *)
let gen_bytes (mode : string) (seed : int) (n : int) : n list =
  match mode with
  | "seq" ->
    List.init n (fun i ->
      let w = ((i / 2) + seed) land 0xFFFF in
      n_of_int (if i land 1 = 0 then w land 0xFF else w lsr 8))
    |> (fun l -> if n land 1 = 1 then (List.rev (N0 :: List.tl (List.rev l))) else l)
  | _ ->
    let s = ref (Int64.of_int seed) in
    List.init n (fun _ ->
      s := Int64.add (Int64.mul !s 6364136223846793005L) 1442695040888963407L;
      n_of_int (Int64.to_int (Int64.shift_right_logical !s 56)))

let digest_bytes (l : n list) : int =
  List.fold_left (fun h b -> dg_step h (int_of_n b)) 0 l

let kpath_of = function
  | "portable" -> Portable
  | "scalar" -> ScalarAsm
  | "disp1" -> Dispatch true
  | "disp0" -> Dispatch false
  | s -> failwith ("bad path " ^ s)

let c09 (w : string list) : string =
  match w with
  | "kern" :: path :: acc :: c :: len :: mode :: seed :: _nalign :: rest ->
    let acc = (acc = "1") and c = n_of_int (int_of_string c) in
    let n = int_of_string len and seed = int_of_string seed in
    let inb = gen_bytes mode seed n and outb = gen_bytes "rand" (seed + 1) n in
    let spec = kspec_fast acc c inb outb in
    (match kernel (kpath_of path) acc c inb outb with
     | Ok o ->
       if rest = ["full"] then Printf.sprintf "ok %s %s" (hex_of_bytes o) (hex_of_bytes spec)
       else Printf.sprintf "ok %d %d" (digest_bytes o) (digest_bytes spec)
     | _ -> "panic 0 0")
  | _ -> failwith "c09: bad command"

let c09mm (w : string list) : string =
  match w with
  | [path; acc; li; lo] ->
    let z n = List.init (int_of_string n) (fun _ -> N0) in
    (match kernel (kpath_of path) (acc = "1") (n_of_int 3) (z li) (z lo) with
     | Ok _ -> "ok" | _ -> "panic")
  | _ -> failwith "c09mm: bad command"

(* register-level SSSE3 routines: c09r <op> <c> <hex of the input registers> *)
let c09r (w : string list) : string =
  match w with
  | [op; c; h] ->
    let c = n_of_int (int_of_string c) and b = bytes_of_hex h in
    let sub i = List.filteri (fun k _ -> k >= 16 * i && k < 16 * (i + 1)) b in
    let (a, d) = (match op with
      | "s2a" -> std_to_alt (sub 0) (sub 1)
      | "a2s" -> alt_to_std (sub 0) (sub 1)
      | "mulalt" -> mul_alt c (sub 0) (sub 1)
      | "mulstd" -> mul_std c (sub 0) (sub 1)
      | "muladd" -> muladd_std c (sub 0) (sub 1) (sub 2) (sub 3)
      | _ -> failwith "c09r: bad op") in
    hex_of_bytes (a @ d)
  | ["chunks"; acc; c; hi; ho] ->
    hex_of_bytes (ssse3_chunks (n_of_int (int_of_string c)) (acc = "1") (bytes_of_hex hi) (bytes_of_hex ho))
  | _ -> failwith "c09r: bad command"

(* ---- C11 ---- *)
let rec nat_of_int (n : int) : nat = if n = 0 then O else S (nat_of_int (n - 1))
let elems_of_hex (s : string) : n list =
  if s = "-" then [] else
  List.init (String.length s / 4) (fun i -> n_of_int (int_of_string ("0x" ^ String.sub s (4*i) 4)))
let rec chunk (c : int) (l : 'a list) : 'a list list =
  if l = [] then [] else
  let rec take k l acc = if k = 0 then (List.rev acc, l) else
      match l with x :: r -> take (k-1) r (x :: acc) | [] -> (List.rev acc, []) in
  let (h, t) = take c l [] in h :: chunk c t
let hex_of_matrix (m : n list list) : string =
  String.concat "" (List.map (fun r -> String.concat "" (List.map (fun x -> Printf.sprintf "%04x" (int_of_n x)) r)) m)
let show_outcome_matrix = function
  | Ok m -> "ok " ^ hex_of_matrix m
  | Err _ -> "err"
  | Panic _ -> "panic"

let c11 (w : string list) : string =
  match w with
  | ["inv"; n; h] ->
    let n = int_of_string n in
    show_outcome_matrix (inverse16 (chunk n (elems_of_hex h)))
  | ["rr"; n; c; hm; hn] ->
    let n = int_of_string n and c = int_of_string c in
    show_outcome_matrix (rowReduce16 (chunk n (elems_of_hex hm)) (chunk c (elems_of_hex hn)))
  | ["times"; _r; k; k2; c; ha; hb] ->
    let k = int_of_string k and k2 = int_of_string k2 and c = int_of_string c in
    let a = chunk k (elems_of_hex ha) and b = chunk c (elems_of_hex hb) in
    show_outcome_matrix (times16_checked (nat_of_int k) (nat_of_int c) a b)
  | _ -> failwith "c11: bad command"

(* ---- C07 ---- *)
let rec z_of_int (i : int) : z =
  if i = 0 then Z0 else if i > 0 then Zpos (pos_of_int i) else Zneg (pos_of_int (-i))
let ckind_of = function "cauchy" -> Cauchy | _ -> PAR2Vandermonde
let rec words_of_bytes (l : n list) : n list =
  match l with
  | lo :: hi :: r -> n_of_int (int_of_n lo + 256 * int_of_n hi) :: words_of_bytes r
  | _ -> []
let digest_word_shards (s : n list list) : int =
  List.fold_left (fun h sh ->
    let h = List.fold_left (fun h w -> let w = int_of_n w in dg_step (dg_step h (w land 255)) (w lsr 8)) h sh in
    dg_step h 256) 0 s
let mask_of (s : string) : bool list = List.init (String.length s) (fun i -> s.[i] = '1')

let c07 (w : string list) : string =
  match w with
  | ["new"; kind; d; p; g] ->
    (match new_coder (ckind_of kind) (z_of_int (int_of_string d)) (z_of_int (int_of_string p)) (z_of_int (int_of_string g)) with
     | Ok _ -> "ok" | Err _ -> "err" | Panic _ -> "panic")
  | ["rt"; kind; d; p; g; words; seed; kd; kp] ->
    let d = int_of_string d and p = int_of_string p and g = int_of_string g in
    let words = int_of_string words and seed = int_of_string seed in
    (match new_coder (ckind_of kind) (z_of_int d) (z_of_int p) (z_of_int g) with
     | Ok c ->
       let data = List.init d (fun i -> words_of_bytes (gen_bytes "rand" (seed + i) (2 * words))) in
       let parity = gen_parity c data in
       let pd = digest_word_shards parity in
       (match reconstruct c (erase (mask_of kd) data) (erase (mask_of kp) parity) with
        | Ok r -> Printf.sprintf "ok %d %d %s" pd (digest_word_shards r) (if r = data then "exact" else "WRONG")
        | Err ENotEnoughParity -> Printf.sprintf "err notenough %d" pd
        | Err _ -> Printf.sprintf "err other %d" pd
        | Panic _ -> "panic")
     | Err _ -> "err new"
     | Panic _ -> "panic")
  | "rt2" :: kind :: d :: p :: g :: words :: seed :: kd :: kps ->
    let d = int_of_string d and p = int_of_string p and g = int_of_string g in
    let words = int_of_string words and seed = int_of_string seed in
    (match new_coder (ckind_of kind) (z_of_int d) (z_of_int p) (z_of_int g) with
     | Ok c ->
       let data = List.init d (fun i -> words_of_bytes (gen_bytes "rand" (seed + i) (2 * words))) in
       let parity = gen_parity c data in
       "rt2" ^ String.concat "" (List.map (fun kp ->
         match reconstruct c (erase (mask_of kd) data) (erase (mask_of kp) parity) with
         | Ok r -> if r = data then " ok-exact" else " ok-WRONG"
         | Err ENotEnoughParity -> " notenough"
         | Err _ -> " other"
         | Panic _ -> " panic") kps)
     | _ -> "err new")
  | _ -> failwith "c07: bad command"

(* ---- C12 ---- *)
let int_of_z = function Z0 -> 0 | Zpos p -> int_of_pos p | Zneg p -> - (int_of_pos p)
let c12 (w : string list) : string =
  match w with
  | ["params"; t; g; mn; dv] ->
    let z s = z_of_int (int_of_string s) in
    let (per, g') = par_params (z t) (z g) (z mn) (z dv) in
    Printf.sprintf "%d %d" (int_of_z per) (int_of_z g')
  | ["apply"; _variant; rows; nin; words; _g; seed] ->
    let rows = int_of_string rows and nin = int_of_string nin and words = int_of_string words in
    let seed = int_of_string seed in
    let mw = words_of_bytes (gen_bytes "rand" seed (2 * rows * nin)) in
    let m = chunk nin mw in
    let ins = List.init nin (fun j -> words_of_bytes (gen_bytes "rand" (seed + 1 + j) (2 * words))) in
    Printf.sprintf "ok %d" (digest_word_shards (apply_matrix (nat_of_int words) m ins))
  | _ -> failwith "c12: bad command"

(* ---- file-system operations (PAR2 / PAR1 models over Model/FS.v) ---- *)
let string_of_bytes (l : n list) : string =
  let b = Buffer.create 64 in
  List.iter (fun x -> Buffer.add_char b (Char.chr (int_of_n x))) l; Buffer.contents b
let small_n = Array.init 256 n_of_int
let bytes_of_string (s : string) : n list =
  List.init (String.length s) (fun i -> small_n.(Char.code s.[i]))
let md5_fn (l : n list) : n list = bytes_of_string (Digest.string (string_of_bytes l))
let unhex (s : string) : string =
  if s = "-" then "" else
  String.init (String.length s / 2) (fun i -> Char.chr (int_of_string ("0x" ^ String.sub s (2*i) 2)))
let hx (s : string) : string =
  if s = "" then "-" else
  let b = Buffer.create (2 * String.length s) in
  String.iter (fun c -> Buffer.add_string b (Printf.sprintf "%02x" (Char.code c))) s; Buffer.contents b
let hxb (l : n list) : string = hx (string_of_bytes l)
let md5hex (l : n list) : string = Digest.to_hex (Digest.string (string_of_bytes l))

(* FS = n (path data)*n ; SCHED = m (idx:kind)*m *)
let parse_fs (w : string list) : (n list * n list) list * (nat * fault) list * string list =
  let rec take_files k w acc = if k = 0 then (List.rev acc, w) else
    match w with p :: d :: r -> take_files (k-1) r ((bytes_of_string (unhex p), bytes_of_string (unhex d)) :: acc)
               | _ -> failwith "bad FS" in
  match w with
  | n :: r ->
    let (files, r) = take_files (int_of_string n) r [] in
    (* first binding of a path wins *)
    let is_dir_entry p = match List.rev p with x :: _ -> int_of_n x = 47 | [] -> false in
    let files = List.filter (fun (p, _) -> not (is_dir_entry p)) files in
    let files = List.fold_left (fun acc (p, d) -> if List.mem_assoc p acc then acc else acc @ [(p, d)]) [] files in
    (match r with
     | m :: r ->
       let m = int_of_string m in
       let rec take_s k w acc = if k = 0 then (List.rev acc, w) else
         match w with
         | x :: r ->
           (match String.split_on_char ':' x with
            | [i; kind] ->
              let f = if kind = "n" || kind = "p" || kind = "x" || kind = "d" || kind = "a" then FNoEffect (* p, x: the same fault with an error of another class *) else FTorn (nat_of_int (int_of_string (String.sub kind 1 (String.length kind - 1)))) in
              take_s (k-1) r ((nat_of_int (int_of_string i), f) :: acc)
            | _ -> failwith "bad sched")
         | [] -> failwith "bad SCHED" in
       let (sched, r) = take_s m r [] in (files, sched, r)
     | [] -> failwith "bad SCHED")
  | [] -> failwith "bad FS"

let class_of_err = function
  | ENotEnoughParity -> "err:notenough" | EIO -> "err:io" | ENotExist -> "err:notexist" | ESingular -> "err:singular" | _ -> "err:other"
let res_str = function Ok _ -> "ok" | Err e -> class_of_err e | Panic _ -> "panic"
let trace_str (tr : ioev list) : string =
  String.concat "," (List.map (function
    | EvRead (p, ok) -> Printf.sprintf "R:%s:%d" (hxb p) (if ok then 1 else 0)
    | EvList (a, b, ok) -> Printf.sprintf "L:%s:%s:%d" (hxb a) (hxb b) (if ok then 1 else 0)
    | EvWrite (p, d, ok) -> Printf.sprintf "W:%s:%s:%d" (hxb p) (md5hex d) (if ok then 1 else 0)) tr)
let changed_str (orig : (n list * n list) list) (fin : (n list * n list) list) : string =
  let l = List.filter_map (fun (p, d) ->
    match List.assoc_opt p orig with
    | Some o when o = d -> None
    | _ -> Some (hxb p ^ ":" ^ hxb d)) fin in
  String.concat "," (List.sort compare l)
let fs_result mode res counts repaired (orig : (n list * n list) list) (st : io) : string =
  Printf.sprintf "%s counts=%s repaired=%s trace=%s changed=%s" res counts
    (String.concat "," (List.map hxb repaired))
    (if mode = "real" then "" else trace_str st.io_trace) (changed_str orig st.io_fs)
let int_of_nat n = let rec go n acc = match n with O -> acc | S m -> go m (acc + 1) in go n 0

let p2 (w : string list) : string =
  match w with
  | "create" :: mode :: par :: slice :: nparity :: _g :: nf :: rest ->
    let nf = int_of_string nf in
    let files = List.filteri (fun i _ -> i < nf) rest and rest = List.filteri (fun i _ -> i >= nf) rest in
    let (fs, sched, _) = parse_fs rest in
    let p = { cp_slice = z_of_int (int_of_string slice); cp_parity = z_of_int (int_of_string nparity) } in
    let (r, st) = par2_create md5_fn (bytes_of_string "/") (bytes_of_string (unhex par))
        (List.map (fun f -> bytes_of_string (unhex f)) files) p (io_init fs sched) in
    fs_result mode (res_str r) "-" [] fs st
  | "verify" :: mode :: ix :: _g :: rest ->
    let (fs, sched, _) = parse_fs rest in
    let (r, st) = par2_verify md5_fn (bytes_of_string (unhex ix)) (io_init fs sched) in
    let cs = match r with
      | Ok c -> Printf.sprintf "%d,%d,%d,%d,%d,%d,%d" (int_of_nat c.c_usable) (int_of_nat c.c_unusable)
                  (int_of_nat c.c_pusable) (int_of_nat c.c_punusable) (int_of_nat c.c_misplaced)
                  (if repair_needed c then 1 else 0) (if repair_possible c then 1 else 0)
      | _ -> "-" in
    fs_result mode (res_str r) cs [] fs st
  | "repair" :: mode :: ix :: dbl :: _g :: rest ->
    let (fs, sched, _) = parse_fs rest in
    let ((r, rp), st) = par2_repair md5_fn (bytes_of_string (unhex ix)) (dbl = "1") (io_init fs sched) in
    fs_result mode (res_str r) "-" rp fs st
  | _ -> failwith "p2: bad command"

(* ---- C05: specification-side validator on the files Create wrote ---- *)
let c05 (w : string list) : string =
  match w with
  | "valid" :: s :: nb :: nin :: rest ->
    let nin = int_of_string nin in
    let rec take k w acc = if k = 0 then (List.rev acc, w) else
      match w with a :: b :: r -> take (k-1) r ((a, b) :: acc) | _ -> failwith "c05: short" in
    let (ins, rest) = take nin rest [] in
    let ins = List.map (fun (n, d) -> { in_name = bytes_of_string (unhex n); in_data = bytes_of_string (unhex d) }) ins in
    (match rest with
     | nout :: rest ->
       let (outs, _) = take (int_of_string nout) rest [] in
       let outs = List.map (fun (i, c) -> (i = "1", bytes_of_string (unhex c))) outs in
       if valid_set md5_fn (nat_of_int (int_of_string s)) (nat_of_int (int_of_string nb)) ins outs then "valid" else "INVALID"
     | [] -> failwith "c05: no outs")
  | _ -> failwith "c05: bad command"

(* ---- C10: specification-side PAR 1.0 validator (Model/Par1Spec.v) on the files PAR1 Create wrote ---- *)
let c10 (w : string list) : string =
  match w with
  | "valid" :: nvol :: nin :: rest ->
    let nin = int_of_string nin in
    let rec take k w acc = if k = 0 then (List.rev acc, w) else
      match w with a :: b :: r -> take (k-1) r ((a, b) :: acc) | _ -> failwith "c10: short" in
    let (ins, rest) = take nin rest [] in
    let names = List.map (fun (n, _) -> bytes_of_string (unhex n)) ins in
    let datas = List.map (fun (_, d) -> bytes_of_string (unhex d)) ins in
    (match rest with
     | nout :: rest ->
       let outs = List.filteri (fun i _ -> i < int_of_string nout) rest in
       let outs = List.map (fun c -> bytes_of_string (unhex c)) outs in
       if valid_par1_set md5_fn names datas (nat_of_int (int_of_string nvol)) outs then "valid" else "INVALID"
     | [] -> failwith "c10: no outs")
  | _ -> failwith "c10: bad command"

let p1 (w : string list) : string =
  match w with
  | "create" :: mode :: par :: nvol :: nf :: rest ->
    let nf = int_of_string nf in
    let files = List.filteri (fun i _ -> i < nf) rest and rest = List.filteri (fun i _ -> i >= nf) rest in
    let (fs, sched, _) = parse_fs rest in
    let (r, st) = par1_create md5_fn (bytes_of_string (unhex par))
        (List.map (fun f -> bytes_of_string (unhex f)) files) (z_of_int (int_of_string nvol)) (io_init fs sched) in
    fs_result mode (res_str r) "-" [] fs st
  | "verify" :: mode :: ix :: all :: rest ->
    let (fs, sched, _) = parse_fs rest in
    let (r, st) = par1_verify md5_fn (bytes_of_string (unhex ix)) (all = "1") (io_init fs sched) in
    let cs = match r with
      | Ok (c, ok) ->
        let un = int_of_nat c.fc_unusable and pu = int_of_nat c.fc_pusable in
        Printf.sprintf "%d,%d,%d,%d,%d,%d,%d" (int_of_nat c.fc_usable) un pu (int_of_nat c.fc_punusable)
          (if ok then 1 else 0) (if un > 0 then 1 else 0) (if pu >= un then 1 else 0)
      | _ -> "-" in
    fs_result mode (res_str r) cs [] fs st
  | "repair" :: mode :: ix :: dbl :: rest ->
    let (fs, sched, _) = parse_fs rest in
    let ((r, rp), st) = par1_repair md5_fn (bytes_of_string (unhex ix)) (dbl = "1") (io_init fs sched) in
    fs_result mode (res_str r) "-" rp fs st
  | _ -> failwith "p1: bad command"

let c15 (w : string list) : string =
  let b s = bytes_of_string (unhex s) in
  match w with
  | ["clean"; a] | ["fclean"; a] -> hxb (clean (b a))
  | ["isabs"; a] -> if is_abs (b a) then "1" else "0"
  | ["dir"; a] -> hxb (dir (b a))
  | ["base"; a] -> hxb (base (b a))
  | ["ext"; a] -> hxb (ext (b a))
  | ["join"; a; c] -> hxb (join2 (b a) (b c))
  | ["check"; a] -> (match check_filename (b a) with Ok _ -> "ok" | Err _ -> "err" | Panic _ -> "panic")
  | _ -> failwith "c15: bad command"

(* ---- C20: the par command ---- *)
let cli (w : string list) : string =
  match w with
  | cwd :: view :: nargs :: rest ->
    let cwd = bytes_of_string (unhex cwd) in
    let n = int_of_string nargs in
    let args = List.filteri (fun i _ -> i < n) rest and rest = List.filteri (fun i _ -> i >= n) rest in
    let args = List.map (fun a -> bytes_of_string (unhex a)) args in
    let (fs, sched, _) = parse_fs rest in
    let to_view p = if view = "rel" then rel_path cwd p else p in
    let of_view p = if is_abs p then clean p else clean (cwd @ (n_of_int 47 :: p)) in
    let fsv = List.map (fun (p, d) -> (to_view p, d)) fs in
    let (code, st) = cli_run md5_fn cwd args (io_init fsv sched) in
    let fin = List.map (fun (p, d) -> (of_view p, d)) st.io_fs in
    Printf.sprintf "exit=%d changed=%s" (int_of_n code) (changed_str fs fin)
  | _ -> failwith "cli: bad command"

let dispatch (line : string) : string =
  match String.split_on_char ' ' (String.trim line) with
  | "c08" :: w -> c08 w
  | "c09" :: w -> c09 w
  | "c09mm" :: w -> c09mm w
  | "c09r" :: w -> c09r w
  | "c11" :: w -> c11 w
  | "c07" :: w -> c07 w
  | "c12" :: w -> c12 w
  | "p2" :: w -> p2 w
  | "p1" :: w -> p1 w
  | "c15" :: w -> c15 w
  | "cli" :: w -> cli w
  | "c05" :: w -> c05 w
  | "c10" :: w -> c10 w
  | _ -> failwith ("bad line: " ^ line)

let () =
  try
    while true do
      let line = input_line stdin in
      if String.trim line <> "" then (print_endline (dispatch line); flush stdout)
    done
  with End_of_file -> ()
